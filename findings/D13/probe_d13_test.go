package corebgp

import (
	"errors"
	"io"
	"net"
	"net/netip"
	"os"
	"testing"
	"time"
)

// D13: a dial that succeeds in the cancel window is received by the close arm of
// connect() (and by cleanup()) and dropped without Close: the TCP connection leaks.
func TestProbeD13(t *testing.T) {
	p := newPeer(PeerConfig{RemoteAddress: netip.MustParseAddr("127.0.0.1"), LocalAS: 1, RemoteAS: 2}, 1, nil, defaultPeerOptions())
	f := newFSM(p, nil)
	c1, c2 := net.Pipe()
	ch := make(chan *dialResult)
	f.dialResultCh = ch
	f.connectRetryTimer = time.NewTimer(time.Hour)
	// the dial completes successfully just as it is cancelled
	f.cancelDialFn = func() { go func() { ch <- &dialResult{conn: c1}; close(ch) }() }
	close(f.closeCh)
	if s := f.connect(); s != disabledState {
		t.Fatalf("state %v", s)
	}
	c2.SetReadDeadline(time.Now().Add(300 * time.Millisecond))
	_, err := c2.Read(make([]byte, 1))
	if errors.Is(err, os.ErrDeadlineExceeded) {
		t.Fatalf("connection delivered during cancellation was not closed (leak): %v", err)
	}
	if err != io.EOF {
		t.Fatalf("unexpected: %v", err)
	}
}
