package main

// Robustness to renamed variables. A contract may declare the parameter names it
// uses (`func NAME (a, b) returns (..)`, positional, receiver first) and the type
// of every local or captured variable it mentions (`local NAME TYPE`). When the
// function no longer has a variable of that name, a parameter is bound by
// position and a local by type: it is the unique variable of that type in the
// function that no other declared local claims. `cbv declare` prints these
// declarations for the current tree.

import (
	"fmt"
	"go/token"
	"go/types"
	"sort"
	"strings"

	"golang.org/x/tools/go/ssa"
)

// varInventory: source-level variable names of a function and the type of their values.
func (e *Engine) varInventory(fn *ssa.Function) map[string]string {
	inv, _ := e.varInventoryPos(fn)
	return inv
}

// sameTypeOrder: the non-parameter variables of type T in order of first appearance.
func (e *Engine) sameTypeOrder(fn *ssa.Function, T string) []string {
	inv, pos := e.varInventoryPos(fn)
	isParam := map[string]bool{}
	for _, p := range fn.Params {
		isParam[p.Name()] = true
	}
	var out []string
	for n, t := range inv {
		if t == T && !isParam[n] {
			out = append(out, n)
		}
	}
	sort.Slice(out, func(i, j int) bool {
		if pos[out[i]] != pos[out[j]] {
			return pos[out[i]] < pos[out[j]]
		}
		return out[i] < out[j]
	})
	return out
}

func (e *Engine) varInventoryPos(fn *ssa.Function) (map[string]string, map[string]token.Pos) {
	inv := map[string]string{}
	first := map[string]token.Pos{}
	cur := token.NoPos
	put := func(name string, t types.Type) {
		if name == "" || name == "_" {
			return
		}
		if _, ok := inv[name]; !ok {
			inv[name] = e.typeName(t)
			first[name] = cur
		} else if cur.IsValid() && (!first[name].IsValid() || cur < first[name]) {
			first[name] = cur
		}
	}
	for _, p := range fn.Params {
		cur = p.Pos()
		put(p.Name(), p.Type())
	}
	for _, fv := range fn.FreeVars {
		cur = fv.Pos()
		t := fv.Type()
		if isPointer(t) {
			t = pointee(t)
		}
		put(fv.Name(), t)
	}
	for _, b := range fn.Blocks {
		for _, in := range b.Instrs {
			cur = in.Pos()
			switch x := in.(type) {
			case *ssa.Alloc:
				if x.Comment != "" && !strings.ContainsAny(x.Comment, " .()") {
					put(x.Comment, pointee(x.Type()))
				}
			case *ssa.Phi:
				if x.Comment != "" && !strings.ContainsAny(x.Comment, " .()") {
					put(x.Comment, x.Type())
				}
			case *ssa.DebugRef:
				if n := debugName(x); n != "" && !x.IsAddr {
					put(n, x.X.Type())
				}
			}
		}
	}
	return inv, first
}

// aliases computes spec name -> actual name for the contract of fn.
func (e *Engine) aliases(fn *ssa.Function, c *Contract) (map[string]string, []string) {
	out := map[string]string{}
	var notes []string
	if c == nil {
		return out, nil
	}
	if len(c.Params) > 0 && len(c.Params) == len(fn.Params) && !c.Extern && !c.Callback {
		for i, p := range fn.Params {
			if c.Params[i] != p.Name() {
				out[c.Params[i]] = p.Name()
				notes = append(notes, fmt.Sprintf("parameter %q of the contract is bound by position to %q", c.Params[i], p.Name()))
			}
		}
	}
	if len(c.Locals) == 0 {
		return out, notes
	}
	inv := e.varInventory(fn)
	claimed := map[string]bool{}
	for _, l := range c.Locals {
		if _, ok := inv[l.Name]; ok {
			claimed[l.Name] = true
		}
	}
	for _, p := range fn.Params {
		claimed[p.Name()] = true
	}
	for _, l := range c.Locals {
		if _, ok := inv[l.Name]; ok {
			continue
		}
		order := e.sameTypeOrder(fn, l.Type)
		var cands []string
		for _, n := range order {
			if !claimed[n] {
				cands = append(cands, n)
			}
		}
		pick := ""
		if len(cands) == 1 {
			pick = cands[0]
		} else if l.Ord >= 0 && l.Ord < len(order) && !claimed[order[l.Ord]] {
			// several candidates: the one at the recorded position among the
			// variables of that type (order of first appearance)
			pick = order[l.Ord]
		}
		if pick != "" {
			out[l.Name] = pick
			claimed[pick] = true
			notes = append(notes, fmt.Sprintf("local %q of the contract no longer exists; bound by type (%s) to %q", l.Name, l.Type, pick))
		}
	}
	return out, notes
}

// contractIdents: identifiers occurring free in the clauses of a contract.
func contractIdents(c *Contract) map[string]bool {
	out := map[string]bool{}
	var walk func(e Expr, bound map[string]bool)
	walk = func(e Expr, bound map[string]bool) {
		switch x := e.(type) {
		case *EIdent:
			if !bound[x.Name] {
				out[x.Name] = true
			}
		case *EBin:
			walk(x.L, bound)
			walk(x.R, bound)
		case *EUn:
			walk(x.X, bound)
		case *ECall:
			for _, a := range x.Args {
				walk(a, bound)
			}
		case *ESel:
			walk(x.X, bound)
		case *EIndex:
			walk(x.X, bound)
			walk(x.I, bound)
		case *ESlice:
			walk(x.X, bound)
			walk(x.Lo, bound)
			walk(x.Hi, bound)
		case *EQuant:
			b2 := map[string]bool{}
			for k := range bound {
				b2[k] = true
			}
			for _, v := range x.Vars {
				b2[v] = true
			}
			walk(x.Body, b2)
		case *ECond:
			walk(x.C, bound)
			walk(x.A, bound)
			walk(x.B, bound)
		}
	}
	none := map[string]bool{}
	for _, cl := range c.Requires {
		walk(cl.E, none)
	}
	for _, cl := range c.Ensures {
		walk(cl.E, none)
	}
	for _, m := range c.Modifies {
		walk(m, none)
	}
	for _, l := range c.Lets {
		walk(l.E, none)
	}
	for _, l := range c.Ghosts {
		walk(l.E, none)
	}
	for _, g := range c.GhostVars {
		walk(g.Init, none)
	}
	for _, ls := range c.Loops {
		for _, cl := range ls.Invariants {
			walk(cl.E, none)
		}
		if ls.Decreases != nil {
			walk(ls.Decreases.E, none)
		}
		for _, cl := range ls.Steps {
			walk(cl.E, none)
		}
	}
	for _, a := range c.Ats {
		walk(a.C.E, none)
		walk(a.SetLHS, none)
	}
	return out
}

// declare prints, per contract, the header parameter list and `local` lines.
func (e *Engine) declare() {
	var names []string
	for n := range e.spec.Contracts {
		names = append(names, n)
	}
	sort.Strings(names)
	for _, n := range names {
		c := e.spec.Contracts[n]
		fn := e.funcs[n]
		if fn == nil {
			continue
		}
		var ps []string
		for _, p := range fn.Params {
			ps = append(ps, p.Name())
		}
		ids := contractIdents(c)
		inv := e.varInventory(fn)
		isParam := map[string]bool{}
		for _, p := range ps {
			isParam[p] = true
		}
		var locals []string
		for id := range ids {
			if t, ok := inv[id]; ok && !isParam[id] {
				skip := false
				for _, r := range c.Results {
					if r == id {
						skip = true
					}
				}
				for _, g := range c.GhostVars {
					if g.Name == id {
						skip = true
					}
				}
				for _, g := range c.Ghosts {
					if g.Name == id {
						skip = true
					}
				}
				for _, g := range c.Lets {
					if g.Name == id {
						skip = true
					}
				}
				if !skip {
					ord := -1
					for k, n2 := range e.sameTypeOrder(fn, t) {
						if n2 == id {
							ord = k
						}
					}
					locals = append(locals, fmt.Sprintf("%s #%d %s", id, ord, t))
				}
			}
		}
		sort.Strings(locals)
		fmt.Printf("%s\t%s:%d\t(%s)\t%s\n", n, c.File, c.Line, strings.Join(ps, ", "), strings.Join(locals, ";"))
	}
}

// specFieldNames: every field name selected anywhere in the specifications. A
// write to a field that no contract, pure function, channel invariant or axiom
// mentions cannot influence any obligation, so it is not subject to frame checks.
func (e *Engine) specFieldNames() map[string]bool {
	if e.specFields != nil {
		return e.specFields
	}
	out := map[string]bool{}
	var walk func(x Expr)
	walk = func(x Expr) {
		switch v := x.(type) {
		case *ESel:
			out[v.Name] = true
			walk(v.X)
		case *EBin:
			walk(v.L)
			walk(v.R)
		case *EUn:
			walk(v.X)
		case *ECall:
			for _, a := range v.Args {
				walk(a)
			}
		case *EIndex:
			walk(v.X)
			walk(v.I)
		case *ESlice:
			walk(v.X)
			walk(v.Lo)
			walk(v.Hi)
		case *EQuant:
			walk(v.Body)
		case *ECond:
			walk(v.C)
			walk(v.A)
			walk(v.B)
		}
	}
	doContract := func(c *Contract) {
		for _, cl := range c.Requires {
			walk(cl.E)
		}
		for _, cl := range c.Ensures {
			walk(cl.E)
		}
		for _, m := range c.Modifies {
			walk(m)
		}
		for _, l := range c.Lets {
			walk(l.E)
		}
		for _, l := range c.Ghosts {
			walk(l.E)
		}
		for _, g := range c.GhostVars {
			walk(g.Init)
		}
		for _, ls := range c.Loops {
			for _, cl := range ls.Invariants {
				walk(cl.E)
			}
			if ls.Decreases != nil {
				walk(ls.Decreases.E)
			}
			for _, cl := range ls.Steps {
				walk(cl.E)
			}
		}
		for _, a := range c.Ats {
			walk(a.C.E)
			walk(a.SetLHS)
		}
	}
	for _, c := range e.spec.Contracts {
		doContract(c)
	}
	for _, c := range e.spec.Externs {
		doContract(c)
	}
	for _, c := range e.spec.Callbacks {
		doContract(c)
	}
	for _, p := range e.spec.Pures {
		walk(p.Body)
	}
	for _, p := range e.spec.ChanInvs {
		walk(p.Body)
	}
	for _, a := range e.spec.Axioms {
		walk(a.E)
	}
	for _, od := range e.spec.Owners {
		walk(od.WriteWhen)
	}
	e.specFields = out
	return out
}
