package main

import (
	"flag"
	"fmt"
	"os"
	"path/filepath"
	"sort"
	"strings"
	"sync"
	"time"
)

func usage() {
	fmt.Fprintln(os.Stderr, `usage:
  cbv list                         list functions (contract units) of /repo
  cbv unit [-smt] [-v] NAME...     build and solve the given units, print every obligation
  cbv sweep                        safety sweep over every function
  cbv check -prop ID -tier quick|thorough   (registered in MANIFEST.json)`)
	os.Exit(2)
}

func main() {
	if len(os.Args) < 2 {
		usage()
	}
	cmd := os.Args[1]
	fs := flag.NewFlagSet(cmd, flag.ExitOnError)
	repo := fs.String("repo", "/repo", "repository to verify")
	verif := fs.String("verif", "/verif", "verification directory")
	smt := fs.Bool("smt", false, "dump SMT scripts to work/")
	verbose := fs.Bool("v", false, "verbose")
	timeout := fs.Int("timeout", 5000, "per-obligation timeout (ms)")
	prop := fs.String("prop", "", "property id")
	tier := fs.String("tier", "quick", "quick|thorough")
	fs.Parse(os.Args[2:])

	t0 := time.Now()
	e, err := loadEngine(*repo)
	if err != nil {
		fmt.Fprintln(os.Stderr, "load:", err)
		os.Exit(3)
	}
	e.verbose = *verbose
	if err := e.loadSpecs(filepath.Join(*verif, "spec")); err != nil {
		fmt.Fprintln(os.Stderr, "spec:", err)
		os.Exit(3)
	}
	e.preRegisterTags()
	loadS := time.Since(t0).Seconds()

	switch cmd {
	case "list":
		for _, n := range e.funcNames() {
			mark := " "
			if e.spec.Contracts[n] != nil {
				mark = "C"
			}
			fmt.Printf("%s %s\n", mark, n)
		}
	case "unit", "sweep":
		names := fs.Args()
		if cmd == "sweep" && len(names) == 0 {
			names = e.sweepRoots()
		}
		opts := SolveOpts{TimeoutMs: *timeout, RecheckMs: *timeout * 2}
		if *smt {
			opts.DumpDir = filepath.Join(*verif, "work")
		}
		results := e.runUnits(names, opts)
		total, bad := 0, 0
		for _, r := range results {
			if r.Err != nil {
				fmt.Printf("== %s: ERROR %v\n", r.Name, r.Err)
				bad++
				continue
			}
			nob, nfail := 0, 0
			for _, o := range r.VC.obligs {
				if o.Cand >= 0 {
					continue
				}
				nob++
				if o.Status != "unsat" {
					nfail++
				}
			}
			total += nob
			bad += nfail
			if cmd == "unit" || nfail > 0 || *verbose || r.VC.coverSt == "unsat" {
				fmt.Printf("== %s: %d obligations, %d not discharged (cover: %s)\n", r.Name, nob, nfail, r.VC.coverSt)
			}
			for _, o := range r.VC.obligs {
				if o.Cand >= 0 {
					continue
				}
				if o.Status != "unsat" || cmd == "unit" && *verbose {
					fmt.Printf("   %-8s %-7s %5.2fs %s  (%s)\n", o.Status, o.Solver, o.TimeS, o.Name, o.Pos)
					if o.Model != "" && *verbose {
						fmt.Printf("            model: %s\n", strings.ReplaceAll(o.Model, "\n", " "))
					}
				}
			}
			for _, v := range r.VC.vacuous {
				fmt.Printf("   VACUOUS premise: %s\n", v)
				bad++
			}
			if *verbose || cmd == "unit" {
				var notes []string
				for n := range r.VC.notes {
					notes = append(notes, n)
				}
				sort.Strings(notes)
				for _, n := range notes {
					fmt.Printf("   note: %s\n", n)
				}
			}
		}
		fmt.Printf("TOTAL units=%d obligations=%d not-discharged=%d load=%.1fs wall=%.1fs\n", len(results), total, bad, loadS, time.Since(t0).Seconds())
	case "owners":
		e.dumpOwners()
	case "declare":
		e.declare()
	case "audit":
		// dead-path audit: which checked paths are unreachable under the hypotheses
		names := fs.Args()
		if len(names) == 0 {
			names = e.sweepRoots()
		}
		var wg sync.WaitGroup
		var mu, pmu sync.Mutex
		sem := make(chan struct{}, 8)
		for _, n := range names {
			if strings.Contains(n, ":") {
				continue
			}
			wg.Add(1)
			go func(n string) {
				defer wg.Done()
				sem <- struct{}{}
				defer func() { <-sem }()
				mu.Lock()
				r := e.buildUnit(n)
				mu.Unlock()
				if r.Err != nil || r.VC == nil {
					return
				}
				flags := solveUnit(r.VC, SolveOpts{TimeoutMs: 2000, RecheckMs: 4000})
				dead := deadGuards(r.VC, flags, 1500)
				pmu.Lock()
				fmt.Printf("== %s: %d dead paths\n", n, len(dead))
				for _, d := range dead {
					fmt.Println("   DEAD", d)
				}
				pmu.Unlock()
			}(n)
		}
		wg.Wait()
	case "check":
		os.Exit(e.checkProperty(*verif, *prop, *tier, t0))
	default:
		usage()
	}
}

func (e *Engine) runUnits(names []string, opts SolveOpts) []*UnitResult {
	results := make([]*UnitResult, len(names))
	var wg sync.WaitGroup
	sem := make(chan struct{}, 16)
	var mu sync.Mutex // VC generation shares engine tables (shapes, tags)
	for i, n := range names {
		wg.Add(1)
		go func(i int, n string) {
			defer wg.Done()
			sem <- struct{}{}
			defer func() { <-sem }()
			if n == "bv:attrsBitmap" {
				results[i] = e.bvProof()
				return
			}
			if n == "model:errors" {
				mu.Lock()
				results[i] = e.modelProof()
				mu.Unlock()
				return
			}
			if n == "own:fields" {
				mu.Lock()
				results[i] = e.ownProof()
				mu.Unlock()
				return
			}
			mu.Lock()
			r := e.buildUnit(n)
			mu.Unlock()
			if r.Err == nil && r.VC != nil {
				r.Flags = solveUnit(r.VC, opts)
			}
			results[i] = r
		}(i, n)
	}
	wg.Wait()
	lastChance(results, opts)
	return results
}

// lastChance gives the few obligations that ended undecided (every back end timed out or
// answered unknown - never a `sat`) one more try after all other solver work of the run has
// finished, with three times the recheck budget. Solver budgets are wall-clock, so on a loaded
// machine an obligation that normally discharges in a second can time out; this pass keeps
// that from becoming an alarm. It costs nothing when nothing is undecided and is capped at
// six obligations (a genuinely broken tree has its violations reported without it).
func lastChance(results []*UnitResult, opts SolveOpts) {
	type item struct {
		r *UnitResult
		o *Oblig
	}
	var todo []item
	for _, r := range results {
		if r == nil || r.Err != nil || r.VC == nil || r.Flags == nil {
			continue
		}
		for _, o := range r.VC.obligs {
			if o.Cand < 0 && (o.Status == "unknown" || o.Status == "timeout") && o.Solver != "not-rechecked" {
				todo = append(todo, item{r, o})
			}
		}
	}
	if len(todo) == 0 || len(todo) > 6 {
		return
	}
	big := opts
	big.RecheckMs = 3 * opts.RecheckMs
	big.AllSolvers = false
	var wg sync.WaitGroup
	for _, it := range todo {
		wg.Add(1)
		go func(it item) {
			defer wg.Done()
			prev := *it.o
			recheck(it.r.VC, it.r.VC.preambleFor(it.r.Flags, it.o, false), it.o, big)
			if it.o.Status == "unsat" {
				it.o.Note = "discharged in the last-chance pass (undecided under load before)\n" + it.o.Note
				return
			}
			if it.o.Status != "sat" && it.o.Status != "disagree" {
				*it.o = prev
			}
		}(it)
	}
	wg.Wait()
}

// preRegisterTags gives every package type (T and *T) and the known extern
// error types a dynamic-type tag up front so that tag numbering does not depend
// on translation order.
func (e *Engine) preRegisterTags() {
	e.registerPackageTags()
	e.tagOfName("*errors.errorString")
	e.tagOfName("*fmt.wrapError")
	e.tagOfName("*errors.joinError")
}
