package main

// Extern calls, the error-tree model, maps, range, channels and select.

import (
	"fmt"
	"go/constant"
	"go/token"
	"go/types"
	"sort"
	"strings"

	"golang.org/x/tools/go/ssa"
)

func (fc *FnCtx) externCall(st *State, instr ssa.CallInstruction, callee *ssa.Function, args []SV, resT types.Type) SV {
	vc := fc.vc
	full := callee.String()
	if callee.Origin() != nil {
		full = callee.Origin().String()
	}
	// a method of a dependency called on a nil pointer receiver dereferences it
	// (time.Timer, sync.*, net.Dialer ...): the receiver must be non-nil
	if recv := callee.Signature.Recv(); recv != nil && isPointer(recv.Type()) && len(args) > 0 && instr != nil {
		if r := args[0]; len(r.T) == 1 && r.one() != "0" && !isNum(r.one()) {
			fc.safety(st, "nil-receiver", instr.Pos(), callee.Name(), mkNot(mkEq(r.one(), "0")))
		} else if len(r.T) == 1 && r.one() == "0" {
			fc.safety(st, "nil-receiver", instr.Pos(), callee.Name(), "false")
		}
	}
	if ex := fc.e.spec.Externs[full]; ex != nil {
		var cc *ssa.CallCommon
		if instr != nil {
			cc = instr.Common()
		}
		return fc.applyContract(st, instr, ex, nil, args, callee.Name(), resT, cc)
	}
	switch full {
	case "errors.New":
		return fc.newLeafError(st, resT)
	case "fmt.Errorf":
		return fc.errorf(st, instr, args, resT)
	case "errors.Join":
		return fc.errorsJoin(st, instr, args, resT)
	case "errors.As":
		return fc.errorsAs(st, instr, args, resT)
	case "fmt.Sprintf", "fmt.Sprint":
		// pure string construction: arbitrary string, no effects
		return vc.havoc(resT, "str", st.alloc)
	case "(*sync.Once).Do":
		return fc.onceDo(st, instr, args, resT)
	}
	// fail closed: a call into a dependency that has no (assumed) contract may do
	// anything to the objects it is handed; the unit cannot be verified around it
	vc.note("extern " + full + " has no contract (used in " + fc.name + ")")
	pos := "-"
	if instr != nil {
		pos = fc.e.pos(instr.Pos())
	}
	fc.vc.oblige(st, "extern", "", "call of "+full+" which has no contract in spec/externs.spec", pos, "false")
	return vc.havoc(resT, "ext_"+callee.Name(), st.alloc)
}

func (fc *FnCtx) intrinsicInvoke(st *State, instr ssa.CallInstruction, key string, recv SV, args []SV, resT types.Type) (SV, bool) {
	switch key {
	case "error.Error":
		return fc.vc.havoc(resT, "errstr", st.alloc), true
	case "interface{Unwrap() error}.Unwrap", "interface{Unwrap() []error}.Unwrap":
		// the children of an error node: arbitrary well-formed values, no effects
		fc.vc.note("assumed: Unwrap methods of foreign error types have no side effects (result havocked)")
		return fc.vc.havoc(resT, "unwrap", st.alloc), true
	}
	return SV{}, false
}

// ---------- error trees ----------
//
// An error value is an interface (tag, val). Over error values the logic has,
// per package error type T, the uninterpreted predicates/functions
//   hasT_T(tag,val)   : the tree of the value contains a value of dynamic type T
//   first_T(tag,val)  : the pointer errors.As would find for target *T
// and errContains(tag1,val1,tag2,val2). Their defining facts are emitted where
// a value is created (MakeInterface of a package error type, errors.New,
// fmt.Errorf with %w, errors.Join). Values of unknown origin stay unconstrained.

func (e *Engine) errorTypes() []types.Type {
	if e.errTypes != nil {
		return e.errTypes
	}
	errI := types.Universe.Lookup("error").Type().Underlying().(*types.Interface)
	for _, T := range e.implementers(errI) {
		if _, ok := T.(*types.Pointer); ok {
			e.errTypes = append(e.errTypes, T)
		}
	}
	return e.errTypes
}

func (e *Engine) tagOfName(n string) int {
	if id, ok := e.tags[n]; ok {
		return id
	}
	id := len(e.tags) + 1
	e.tags[n] = id
	e.tagList = append(e.tagList, nil)
	return id
}

func (e *Engine) knownTagTypes() []types.Type {
	var out []types.Type
	for _, t := range e.tagList {
		if t != nil {
			out = append(out, t)
		}
	}
	return out
}

func (fc *FnCtx) hasTName(T types.Type) string {
	n := "hasT_" + sanitize(fc.e.typeName(T))
	if !fc.vc.ufDecl[n] {
		fc.vc.declUF(n, []Sort{SInt, SInt}, SBool)
		f := "first_" + sanitize(fc.e.typeName(T))
		fc.vc.declUF(f, []Sort{SInt, SInt}, SInt)
		// leaf error types of the package (none has Unwrap/As/Is methods) and
		// errors.New values: the tree is the value itself
		for _, X := range fc.e.errorTypes() {
			tag := num(int64(fc.e.tagOf(X)))
			if types.Identical(X, T) {
				fc.vc.assertGlobal(fmt.Sprintf("(forall ((v Int)) (%s %s v))", n, tag))
				fc.vc.assertGlobal(fmt.Sprintf("(forall ((v Int)) (= (%s %s v) v))", f, tag))
			} else {
				fc.vc.assertGlobal(fmt.Sprintf("(forall ((v Int)) (not (%s %s v)))", n, tag))
			}
		}
		fc.vc.assertGlobal(fmt.Sprintf("(forall ((v Int)) (not (%s %d v)))", n, fc.e.tagOfName("*errors.errorString")))
	}
	return n
}

func (fc *FnCtx) firstName(T types.Type) string {
	fc.hasTName(T)
	return "first_" + sanitize(fc.e.typeName(T))
}

func (fc *FnCtx) errHasType(v SV, T types.Type) Term {
	return mkAnd(mkNot(mkEq(v.tag(), "0")), mkApp(fc.hasTName(T), v.tag(), v.ival()))
}

func (fc *FnCtx) errFirst(v SV, T types.Type) Term {
	return mkApp(fc.firstName(T), v.tag(), v.ival())
}

func (fc *FnCtx) errContains(a, b SV) Term {
	fc.declContains()
	return mkApp("errContains", a.tag(), a.ival(), b.tag(), b.ival())
}

func (fc *FnCtx) declContains() {
	if fc.vc.ufDecl["errContains"] {
		return
	}
	fc.vc.declUF("errContains", []Sort{SInt, SInt, SInt, SInt}, SBool)
	// every non-nil error contains itself
	fc.vc.assertGlobal("(forall ((t Int) (v Int)) (=> (not (= t 0)) (errContains t v t v)))")
	fc.vc.assertGlobal("(forall ((v Int) (xt Int) (xv Int)) (not (errContains 0 v xt xv)))")
	tags := []int{fc.e.tagOfName("*errors.errorString")}
	for _, X := range fc.e.errorTypes() {
		tags = append(tags, fc.e.tagOf(X))
	}
	for _, t := range tags {
		fc.vc.assertGlobal(fmt.Sprintf("(forall ((v Int) (xt Int) (xv Int)) (= (errContains %d v xt xv) (and (= xt %d) (= xv v))))", t, t))
	}
}

// leafErrorFacts: value (tag,val) of concrete leaf type X (nil X = opaque leaf
// such as *errors.errorString).
func (fc *FnCtx) leafErrorFacts(st *State, tag, val Term, X types.Type) {
	vc := fc.vc
	for _, T := range fc.e.errorTypes() {
		same := X != nil && types.Identical(X, T)
		if same {
			vc.assume(st, mkApp(fc.hasTName(T), tag, val))
			vc.assume(st, mkEq(mkApp(fc.firstName(T), tag, val), val))
		} else {
			vc.assume(st, mkNot(mkApp(fc.hasTName(T), tag, val)))
		}
	}
	fc.declContains()
	vc.assume(st, fmt.Sprintf("(forall ((xt Int) (xv Int)) (= (errContains %s %s xt xv) (and (= xt %s) (= xv %s))))", tag, val, tag, val))
}

func (fc *FnCtx) newLeafError(st *State, resT types.Type) SV {
	r := fc.newRef(st, "err")
	tag := num(int64(fc.e.tagOfName("*errors.errorString")))
	fc.leafErrorFacts(st, tag, r, nil)
	return SV{Typ: resT, T: []Term{tag, r}}
}

// errorf models fmt.Errorf: with exactly one %w the result wraps that operand.
func (fc *FnCtx) errorf(st *State, instr ssa.CallInstruction, args []SV, resT types.Type) SV {
	vc := fc.vc
	format := ""
	if instr != nil {
		if c, ok := instr.Common().Args[0].(*ssa.Const); ok && c.Value != nil && c.Value.Kind() == constant.String {
			format = constant.StringVal(c.Value)
		}
	}
	nw := strings.Count(format, "%w")
	if nw == 0 {
		return fc.newLeafError(st, resT)
	}
	// position of the %w operand among the verbs
	idx := -1
	if nw == 1 {
		k := 0
		for i := 0; i+1 < len(format); i++ {
			if format[i] == '%' {
				if format[i+1] == '%' {
					i++
					continue
				}
				if format[i+1] == 'w' {
					idx = k
				}
				k++
			}
		}
	}
	r := fc.newRef(st, "werr")
	tag := num(int64(fc.e.tagOfName("*fmt.wrapError")))
	out := SV{Typ: resT, T: []Term{tag, r}}
	if idx < 0 || len(args) < 2 {
		vc.note("fmt.Errorf with several %w in " + fc.name + ": error tree left unconstrained")
		return out
	}
	// the operand is element idx of the variadic []any
	va := args[1]
	anyT := va.Typ.Underlying().(*types.Slice).Elem()
	child := vc.load(st, &LV{Col: fc.e.elemCol(anyT), Ref: va.arr(), Idx: mkAdd(va.off(), num(int64(idx))), HasIdx: true, Typ: anyT, Elem: true})
	fc.wrapFacts(st, out, []SV{child})
	return out
}

// wrapFacts: parent wraps the non-nil children (in order).
func (fc *FnCtx) wrapFacts(st *State, parent SV, children []SV) {
	vc := fc.vc
	for _, T := range fc.e.errorTypes() {
		var anyHas []Term
		first := Term("0")
		for i := len(children) - 1; i >= 0; i-- {
			c := children[i]
			has := fc.errHasType(c, T)
			anyHas = append(anyHas, has)
			first = mkIte(has, fc.errFirst(c, T), first)
		}
		vc.assume(st, mkEq(mkApp(fc.hasTName(T), parent.tag(), parent.ival()), mkOr(anyHas...)))
		vc.assume(st, mkEq(mkApp(fc.firstName(T), parent.tag(), parent.ival()), first))
	}
	fc.declContains()
	alts := []Term{mkAnd(mkEq("xt", parent.tag()), mkEq("xv", parent.ival()))}
	for _, c := range children {
		alts = append(alts, mkAnd(mkNot(mkEq(c.tag(), "0")), mkApp("errContains", c.tag(), c.ival(), "xt", "xv")))
	}
	vc.assume(st, fmt.Sprintf("(forall ((xt Int) (xv Int)) (= (errContains %s %s xt xv) %s))", parent.tag(), parent.ival(), mkOr(alts...)))
}

func (fc *FnCtx) errorsJoin(st *State, instr ssa.CallInstruction, args []SV, resT types.Type) SV {
	vc := fc.vc
	va := args[0]
	// the variadic slice is built from a fresh [n]error array; n is its length
	n := va.ln()
	if !isNum(n) || !numVal(n).IsInt64() || numVal(n).Int64() > 8 {
		vc.note("errors.Join with non-constant operand count in " + fc.name + ": result unconstrained")
		return vc.havoc(resT, "join", st.alloc)
	}
	errT := va.Typ.Underlying().(*types.Slice).Elem()
	var children []SV
	var anyNonNil []Term
	for k := int64(0); k < numVal(n).Int64(); k++ {
		c := vc.load(st, &LV{Col: fc.e.elemCol(errT), Ref: va.arr(), Idx: mkAdd(va.off(), num(k)), HasIdx: true, Typ: errT, Elem: true})
		children = append(children, c)
		anyNonNil = append(anyNonNil, mkNot(mkEq(c.tag(), "0")))
	}
	r := fc.newRef(st, "jerr")
	tag := num(int64(fc.e.tagOfName("*errors.joinError")))
	nonNil := vc.define("join_nonnil", SBool, mkOr(anyNonNil...))
	out := SV{Typ: resT, T: []Term{vc.define("join_tag", SInt, mkIte(nonNil, tag, "0")), vc.define("join_val", SInt, mkIte(nonNil, r, "0"))}}
	sub := st.clone()
	sub.guard = vc.define("g_join", SBool, mkAnd(st.guard, nonNil))
	fc.wrapFacts(sub, SV{Typ: resT, T: []Term{tag, r}}, children)
	return out
}

func (fc *FnCtx) errorsAs(st *State, instr ssa.CallInstruction, args []SV, resT types.Type) SV {
	vc := fc.vc
	// target: any <- **T ; find T from the SSA operand
	var T types.Type
	if instr != nil {
		if mi, ok := instr.Common().Args[1].(*ssa.MakeInterface); ok {
			if pt, ok := mi.X.Type().Underlying().(*types.Pointer); ok {
				T = pt.Elem()
			}
		}
	}
	if T == nil || !isPointer(T) {
		vc.note("errors.As with a non-pointer-to-pointer target in " + fc.name + ": havocked")
		return vc.havoc(resT, "as", st.alloc)
	}
	err := args[0]
	ok := vc.define("as_ok", SBool, fc.errHasType(err, T))
	// store the found value through the target pointer when ok
	cell := fc.e.rootLV(args[1].ival(), T)
	cur := vc.load(st, cell)
	found := fc.errFirst(err, T)
	vc.store(st, cell, SV{Typ: T, T: []Term{mkIte(ok, found, cur.one())}})
	return SV{Typ: resT, T: []Term{ok}}
}

// onceDo: sync.Once.Do(f) runs f iff the Once has not fired yet.
func (fc *FnCtx) onceDo(st *State, instr ssa.CallInstruction, args []SV, resT types.Type) SV {
	vc := fc.vc
	once := args[0].one()
	done := fc.ghostGet(st, "onceDone", SBool, once)
	var mc *ssa.MakeClosure
	if instr != nil {
		mc = fc.traceClosure(instr.Common().Args[1])
	}
	if mc == nil {
		vc.note("sync.Once.Do with an unknown function in " + fc.name + ": effects not modelled")
		return SV{Typ: resT}
	}
	run := st.clone()
	run.guard = vc.define("g_once", SBool, mkAnd(st.guard, mkNot(done)))
	skip := st.clone()
	skip.guard = vc.define("g_onceskip", SBool, mkAnd(st.guard, done))
	fc.callStatic(run, instr, mc.Fn.(*ssa.Function), nil, mc, mc.Fn.(*ssa.Function).Signature.Results())
	fc.ghostFrame(run, "onceDone", once, instr)
	fc.ghostSet(run, "onceDone", SBool, once, "true")
	merged := vc.joinStates([]*State{run, skip}, "once")
	*st = *merged
	return SV{Typ: resT}
}

// onceInit: sync.Once fields of a freshly allocated struct have not fired.
func (fc *FnCtx) onceInit(st *State, r Term, T types.Type) {
	stT, ok := T.Underlying().(*types.Struct)
	if !ok {
		return
	}
	for i := 0; i < stT.NumFields(); i++ {
		f := stT.Field(i)
		if fc.e.typeName(f.Type()) == "sync.Once" {
			lv := fc.e.rootLV(r, T)
			nl := *lv
			nl.Path = f.Name()
			nl.Typ = f.Type()
			fc.ghostSet(st, "onceDone", SBool, fc.interiorPtr(&nl), "false")
		}
	}
}

// afterStore: ghost effects of particular stores.
func (fc *FnCtx) afterStore(st *State, lv *LV, x *ssa.Store) {
	if fc.e.typeName(lv.Typ) == "sync.Once" {
		// assigning sync.Once{} re-arms the Once
		fc.ghostSet(st, "onceDone", SBool, fc.interiorPtr(lv), "false")
	}
}

// ---------- maps ----------

func (fc *FnCtx) mapCols(mt types.Type) (dom string, valCols []string, valSorts []Sort, vt types.Type) {
	m := mt.Underlying().(*types.Map)
	name := "map:" + fc.e.typeName(mt)
	dom = name + ".dom"
	vt = m.Elem()
	for _, l := range fc.e.shape(vt).Leaves {
		c := name + ".val"
		if l.Path != "" {
			c += "." + l.Path
		}
		valCols = append(valCols, c)
		valSorts = append(valSorts, arrOf(arrOf(l.Sort)))
	}
	return
}

func (fc *FnCtx) mapKey(k SV) Term {
	if len(k.T) != 1 {
		fc.unsupported("map with compound key")
		return "0"
	}
	return k.T[0]
}

func (fc *FnCtx) mapInit(st *State, mt types.Type, r Term) {
	dom, _, _, _ := fc.mapCols(mt)
	h := fc.vc.colGet(st, dom, SArr2Bool)
	fc.vc.colSet(st, dom, SArr2Bool, mkSto(h, r, constArray(SArrBool, "false")))
	fc.ghostSet(st, "mapLen", SInt, r, "0")
}

func (fc *FnCtx) mapGet(st *State, mt types.Type, m Term, key Term, raw bool) SV {
	dom, cols, sorts, vt := fc.mapCols(mt)
	in := mkSel(mkSel(fc.vc.colGet(st, dom, SArr2Bool), m), key)
	out := SV{Typ: vt}
	z := fc.vc.zero(vt)
	leaves := fc.e.shape(vt).Leaves
	for i, c := range cols {
		// references stored in a map of the pre-state are allocated in the pre-state
		fc.vc.refColumn(c, sorts[i], leaves[i])
		v := mkSel(mkSel(fc.vc.colGet(st, c, sorts[i]), m), key)
		out.T = append(out.T, mkIte(in, v, z.T[i]))
	}
	if raw {
		return out
	}
	return fc.vc.wellFormedLoaded(st, out)
}

func (fc *FnCtx) lookup(st *State, x *ssa.Lookup) {
	vc := fc.vc
	if _, isMap := x.X.Type().Underlying().(*types.Map); !isMap {
		// string indexing
		fc.vals[x] = vc.havoc(x.Type(), "stridx", st.alloc)
		return
	}
	if g, ok := x.X.(*ssa.UnOp); ok {
		if gl, ok := g.X.(*ssa.Global); ok && fc.e.immutableGlobal(gl) {
			// lookup in a constant table (description maps): arbitrary result
			fc.vals[x] = vc.havoc(x.Type(), "tbl", st.alloc)
			return
		}
	}
	m := fc.val(x.X).one()
	key := fc.mapKey(fc.val(x.Index))
	v := fc.mapGet(st, x.X.Type(), m, key, false)
	if x.CommaOk {
		dom, _, _, _ := fc.mapCols(x.X.Type())
		in := mkSel(mkSel(vc.colGet(st, dom, SArr2Bool), m), key)
		out := SV{Typ: x.Type(), T: append(append([]Term{}, v.T...), vc.define("inmap", SBool, in))}
		fc.vals[x] = out
		return
	}
	fc.vals[x] = v
}

func (fc *FnCtx) mapUpdate(st *State, x *ssa.MapUpdate) {
	vc := fc.vc
	m := fc.val(x.Map).one()
	fc.safety(st, "nil-map-store", x.Pos(), fc.valueSourceName(x.Map), mkNot(mkEq(m, "0")))
	key := fc.mapKey(fc.val(x.Key))
	dom, cols, sorts, vt := fc.mapCols(x.Map.Type())
	fc.frameCheck(st, &LV{Col: "map:" + fc.e.typeName(x.Map.Type()), Ref: m, Typ: vt}, x.Pos())
	hd := vc.colGet(st, dom, SArr2Bool)
	was := mkSel(mkSel(hd, m), key)
	ln := fc.ghostGet(st, "mapLen", SInt, m)
	fc.ghostFrame(st, "mapLen", m, x)
	fc.ghostSet(st, "mapLen", SInt, m, mkIte(was, ln, mkAdd(ln, "1")))
	vc.colSet(st, dom, SArr2Bool, mkSto(hd, m, mkSto(mkSel(hd, m), key, "true")))
	v := fc.coerce(fc.val(x.Value), vt)
	for i, c := range cols {
		h := vc.colGet(st, c, sorts[i])
		vc.colSet(st, c, sorts[i], mkSto(h, m, mkSto(mkSel(h, m), key, v.T[i])))
	}
}

func (fc *FnCtx) mapDelete(st *State, mt types.Type, m Term, k SV, instr ssa.Instruction) {
	vc := fc.vc
	key := fc.mapKey(k)
	dom, _, _, vt := fc.mapCols(mt)
	pos := token.NoPos
	if instr != nil {
		pos = instr.Pos()
	}
	fc.frameCheck(st, &LV{Col: "map:" + fc.e.typeName(mt), Ref: m, Typ: vt}, pos)
	hd := vc.colGet(st, dom, SArr2Bool)
	was := mkSel(mkSel(hd, m), key)
	ln := fc.ghostGet(st, "mapLen", SInt, m)
	fc.ghostFrame(st, "mapLen", m, instr)
	fc.ghostSet(st, "mapLen", SInt, m, mkIte(was, mkSub(ln, "1"), ln))
	vc.colSet(st, dom, SArr2Bool, mkSto(hd, m, mkSto(mkSel(hd, m), key, "false")))
}

func (fc *FnCtx) mapLen(st *State, mt types.Type, m Term, resT types.Type) SV {
	t := fc.vc.define("maplen", SInt, fc.ghostGet(st, "mapLen", SInt, m))
	fc.vc.assert(mkImp(st.guard, mkLe("0", t)))
	return SV{Typ: resT, T: []Term{t}}
}

// Range over a map: an arbitrary duplicate-free enumeration ks[0..n) of the
// domain as it is when the loop starts. The iterator value is its position.
func (fc *FnCtx) rangeInit(st *State, x *ssa.Range) {
	vc := fc.vc
	if _, isMap := x.X.Type().Underlying().(*types.Map); !isMap {
		fc.unsupported("range over string")
		fc.vals[x] = vc.havoc(x.Type(), "range", st.alloc)
		return
	}
	m := fc.val(x.X).one()
	id := vc.fresh("iter", SInt)
	vc.declUF("iterKey", []Sort{SInt, SInt}, SInt)
	vc.declUF("iterLen", []Sort{SInt}, SInt)
	dom, _, _, _ := fc.mapCols(x.X.Type())
	d := mkSel(vc.colGet(st, dom, SArr2Bool), m)
	n := mkApp("iterLen", id)
	vc.assume(st, mkLe("0", n))
	vc.assume(st, mkEq(n, fc.ghostGet(st, "mapLen", SInt, m)))
	// every enumerated key is in the domain, no duplicates, every domain key enumerated
	vc.assume(st, fmt.Sprintf("(forall ((i Int)) (=> (and (<= 0 i) (< i %s)) (select %s (iterKey %s i))))", n, d, id))
	vc.assume(st, fmt.Sprintf("(forall ((i Int) (j Int)) (=> (and (<= 0 i) (< i j) (< j %s)) (not (= (iterKey %s i) (iterKey %s j)))))", n, id, id))
	vc.declUF("iterPos", []Sort{SInt, SInt}, SInt)
	vc.assume(st, fmt.Sprintf("(forall ((k Int)) (=> (select %s k) (and (<= 0 (iterPos %s k)) (< (iterPos %s k) %s) (= (iterKey %s (iterPos %s k)) k))))", d, id, id, n, id, id))
	// iterator state: (id, position) packed into the value and a ghost counter
	fc.ghostSet(st, "iterPos", SInt, id, "0")
	fc.ghostSet(st, "iterMap", SInt, id, m)
	fc.vals[x] = SV{Typ: x.Type(), T: []Term{id}}
	fc.rangeMap[x] = x.X.Type()
}

func (fc *FnCtx) rangeNext(st *State, x *ssa.Next) {
	vc := fc.vc
	rng, _ := x.Iter.(*ssa.Range)
	if rng == nil || fc.rangeMap[rng] == nil {
		fc.unsupported("next over non-map iterator")
		fc.vals[x] = vc.havoc(x.Type(), "next", st.alloc)
		return
	}
	mt := fc.rangeMap[rng]
	id := fc.val(x.Iter).one()
	pos := fc.ghostGet(st, "iterPos", SInt, id)
	n := mkApp("iterLen", id)
	ok := vc.define("next_ok", SBool, mkLt(pos, n))
	key := vc.define("next_key", SInt, mkApp("iterKey", id, pos))
	m := fc.ghostGet(st, "iterMap", SInt, id)
	fc.ghostSet(st, "iterPos", SInt, id, mkIte(ok, mkAdd(pos, "1"), pos))
	// value as stored in the map now (the package never mutates while ranging)
	v := fc.mapGet(st, mt, m, key, false)
	tt := x.Type().(*types.Tuple)
	out := SV{Typ: x.Type(), T: []Term{ok}}
	kt := tt.At(1).Type()
	if len(fc.e.shape(kt).Leaves) == 1 {
		out.T = append(out.T, key)
	}
	if len(fc.e.shape(tt.At(2).Type()).Leaves) == len(v.T) {
		out.T = append(out.T, v.T...)
	}
	fc.vals[x] = out
}

// timerChanOf remembers that a channel value is the C field of a *time.Timer.
func (fc *FnCtx) timerChanOf(x ssa.Value, lv *LV) {
	if lv.Col == "*time.Timer" && lv.Path == "C" {
		fc.timerCh[x] = lv.Ref
	}
}

// timerRecv: a receive from t.C is possible only if the timer was set and not
// stopped, or a fired value may still be waiting; it consumes that value.
func (fc *FnCtx) timerRecv(st *State, ch ssa.Value, chosen Term) {
	t, ok := fc.timerCh[ch]
	if !ok {
		return
	}
	on := fc.ghostGet(st, "timerOn", SBool, t)
	may := fc.ghostGet(st, "timerMayHold", SBool, t)
	fc.vc.assume(st, mkImp(chosen, mkOr(on, may)))
	fc.vc.note("timer channel: a value is received from t.C only if the timer is set (not stopped) or an undrained fired value may be waiting")
	fc.ghostSet(st, "timerOn", SBool, t, mkIte(chosen, "false", on))
	fc.ghostSet(st, "timerMayHold", SBool, t, mkIte(chosen, "false", may))
}

// joinRecv: a receive from a channel declared `joins T.ch ghost` returns only
// after the goroutine that owns the deferred close(ch) has returned.
// deliversOK: for a `delivers` channel the receive yields a sent value while the
// producing goroutine is flagged running.
func (fc *FnCtx) deliversOK(st *State, ch ssa.Value) (Term, bool) {
	lv, ok := fc.loadedFrom[ch]
	if !ok || lv.HasIdx || lv.Elem {
		return "", false
	}
	name := lv.Col + "." + lv.Path
	g, ok := fc.e.spec.Joins[name]
	if !ok || !fc.e.spec.Delivers[name] {
		return "", false
	}
	gf := fc.e.spec.Ghosts[g]
	if gf == nil {
		return "", false
	}
	fc.vc.note("delivery pattern assumed: the goroutine flagged by " + g + " sends exactly one value on " + name + " before closing it")
	return fc.ghostGet(st, g, gf.Sort, lv.Ref), true
}

func (fc *FnCtx) joinRecv(st *State, ch ssa.Value, chosen Term) {
	lv, ok := fc.loadedFrom[ch]
	if !ok || lv.HasIdx || lv.Elem {
		return
	}
	g, ok := fc.e.spec.Joins[lv.Col+"."+lv.Path]
	if !ok {
		return
	}
	gf := fc.e.spec.Ghosts[g]
	if gf == nil {
		return
	}
	cur := fc.ghostGet(st, g, gf.Sort, lv.Ref)
	fc.ghostFrame(st, g, lv.Ref, nil)
	fc.ghostSet(st, g, gf.Sort, lv.Ref, mkIte(chosen, "false", cur))
	fc.vc.note("join pattern assumed: " + lv.Col + "." + lv.Path + " is closed only by the deferred close of the goroutine flagged by " + g)
}

// ---------- channels ----------

// chanField names the struct field a channel value was loaded from ("fsm.readerMsgCh").
func (fc *FnCtx) chanField(v ssa.Value) string {
	switch x := v.(type) {
	case *ssa.UnOp:
		if x.Op == token.MUL {
			switch a := x.X.(type) {
			case *ssa.FieldAddr:
				T := pointee(a.X.Type())
				return fc.e.typeName(T) + "." + T.Underlying().(*types.Struct).Field(a.Field).Name()
			case *ssa.IndexAddr:
				if fa, ok := a.X.(*ssa.FieldAddr); ok {
					T := pointee(fa.X.Type())
					return fc.e.typeName(T) + "." + T.Underlying().(*types.Struct).Field(fa.Field).Name()
				}
			}
		}
	case *ssa.Call:
		return fc.anchorName(x.Common())
	case *ssa.ChangeType:
		return fc.chanField(x.X)
	case *ssa.Phi:
		return x.Comment
	case *ssa.FreeVar:
		return x.Name()
	case *ssa.Parameter:
		return x.Name()
	}
	return fc.valueSourceName(v)
}

func (fc *FnCtx) chanInv(st *State, chv ssa.Value, v SV, asObligation bool, pos token.Pos, site string) {
	name := fc.chanField(chv)
	inv := fc.e.spec.ChanInvs[name]
	if inv == nil {
		return
	}
	env := fc.env(st, nil)
	env.fcLocalsOff()
	env.vars = map[string]SV{}
	if len(inv.Params) > 0 {
		env.vars[inv.Params[0]] = v
	}
	if len(inv.Params) > 1 {
		env.vars[inv.Params[1]] = fc.val(chv)
	}
	fc.vc.safeEval("chaninv "+name, func() {
		t := env.evalBool(inv.Body)
		if asObligation {
			fc.vc.oblige(st, "chaninv", name, site+" "+name, fc.e.pos(pos), t)
		} else {
			fc.vc.assume(st, t)
			fc.vc.note("channel invariant assumed at receive (rely): " + name)
		}
	})
}

func (fc *FnCtx) send(st *State, ch ssa.Value, v SV, pos token.Pos) {
	fc.chanInv(st, ch, v, true, pos, "send")
	// A send outside a `select` blocks until it is received (or buffered): nothing lets the
	// goroutine escape when the session ends meanwhile. Every such send must be declared (and
	// justified) in the contract of the unit it is executed in: `plainsends N why`.
	root := fc.unitCtx()
	k := root.nPlainSends
	root.nPlainSends++
	goal := "false"
	if root.contract != nil && k < root.contract.PlainSends {
		goal = "true"
	}
	fc.vc.oblige(st, "chaninv", "", fmt.Sprintf("send #%d on %s outside a select (blocks without escape): declared by `plainsends` in the contract of %s", k, fc.chanField(ch), root.name), fc.e.pos(pos), goal)
}

// neverClosed: no close() in the whole package is applied to a channel loaded
// from this struct field (and the channel is not handed to user code), so a
// receive from it always yields a sent value.
func (e *Engine) neverClosed(field string) bool {
	if e.closedFields == nil {
		e.closedFields = map[string]bool{}
		for _, fn := range e.funcs {
			tmp := &FnCtx{e: e, fn: fn}
			for _, b := range fn.Blocks {
				for _, in := range b.Instrs {
					var c *ssa.CallCommon
					switch x := in.(type) {
					case *ssa.Call:
						c = x.Common()
					case *ssa.Defer:
						c = x.Common()
					case *ssa.Go:
						c = x.Common()
					}
					if c == nil {
						continue
					}
					if bi, ok := c.Value.(*ssa.Builtin); ok && bi.Name() == "close" {
						e.closedFields[tmp.chanField(c.Args[0])] = true
					}
				}
			}
		}
	}
	if !strings.Contains(field, ".") {
		return false // not a struct field: unknown provenance
	}
	return !e.closedFields[field]
}

func (fc *FnCtx) recv(st *State, ch ssa.Value, commaOk bool, resT types.Type, pos token.Pos) SV {
	vc := fc.vc
	et := ch.Type().Underlying().(*types.Chan).Elem()
	v := vc.havoc(et, "recv", st.alloc)
	c := fc.val(ch).one()
	closed := fc.ghostGet(st, "chanClosed", SBool, c)
	// a receive from a closed channel yields the zero value; otherwise the
	// value satisfies the channel invariant
	fc.timerRecv(st, ch, "true")
	running, delivers := fc.deliversOK(st, ch)
	fc.joinRecv(st, ch, "true")
	okc := vc.fresh("recv_ok", SBool)
	if delivers {
		vc.assume(st, mkImp(running, okc))
	}
	if fc.e.neverClosed(fc.chanField(ch)) {
		vc.assume(st, okc)
	}
	sub := st.clone()
	sub.guard = vc.define("g_recv", SBool, mkAnd(st.guard, okc))
	fc.chanInv(sub, ch, v, false, pos, "recv")
	vc.assume(st, mkImp(mkNot(okc), svEq(v, vc.zero(et))))
	_ = closed
	fc.atRecv(st, ch, v, pos)
	if commaOk {
		return SV{Typ: resT, T: append(append([]Term{}, v.T...), okc)}
	}
	return SV{Typ: resT, T: v.T}
}

// atRecv: `at recv FIELD#k after set/assert ...` anchors on plain receives.
func (fc *FnCtx) atRecv(st *State, ch ssa.Value, v SV, pos token.Pos) {
	if fc.contract == nil {
		return
	}
	field := fc.chanField(ch)
	if k := strings.LastIndex(field, "."); k >= 0 {
		field = field[k+1:]
	}
	// ordinal among the plain receives on that field, in source order
	ord := 0
	var me ssa.Instruction
	type rc struct {
		in  ssa.Instruction
		pos token.Pos
	}
	var all []rc
	for _, b := range fc.fn.Blocks {
		for _, in := range b.Instrs {
			if u, ok := in.(*ssa.UnOp); ok && u.Op == token.ARROW {
				f2 := fc.chanField(u.X)
				if k := strings.LastIndex(f2, "."); k >= 0 {
					f2 = f2[k+1:]
				}
				if f2 == field {
					all = append(all, rc{in, in.Pos()})
					if u.X == ch && in.Pos() == pos {
						me = in
					}
				}
			}
		}
	}
	sort.SliceStable(all, func(i, j int) bool { return all[i].pos < all[j].pos })
	for i, r := range all {
		if r.in == me {
			ord = i
		}
	}
	for _, a := range fc.contract.Ats {
		if a.Kind != "recv" || a.Target != field || (a.Ord >= 0 && a.Ord != ord) {
			continue
		}
		a := a
		fc.vc.atMatched[fmt.Sprintf("%s:%d", a.C.File, a.C.Line)] = true
		var blk *ssa.BasicBlock
		if me != nil {
			blk = me.Block()
		}
		env := fc.env(st, blk)
		env.atInstr = me
		env.vars["result"] = v
		fc.vc.safeEval(fmt.Sprintf("%s:%d at recv", a.C.File, a.C.Line), func() {
			switch a.What {
			case "set":
				fc.ghostAssign(st, env, a.SetLHS, a.C.E, me)
			case "assume":
				fc.vc.assume(st, env.evalBool(a.C.E))
				fc.vc.note(fmt.Sprintf("ASSUME at recv %s#%d in %s: %s", field, ord, fc.name, a.C.Src))
			default:
				t := env.evalBool(a.C.E)
				fc.vc.oblige(st, "assert", a.C.Label, fmt.Sprintf("at recv %s#%d:%s", field, ord, a.C.Label), fc.e.pos(pos), t)
				st.guard = fc.vc.define("g_lem", SBool, mkAnd(st.guard, t))
			}
		})
	}
}

func (fc *FnCtx) selectStmt(st *State, x *ssa.Select) {
	vc := fc.vc
	n := len(x.States)
	idx := vc.fresh("sel", SInt)
	lo := "0"
	if !x.Blocking {
		lo = "(- 1)"
	}
	vc.assume(st, mkAnd(mkLe(lo, idx), mkLt(idx, num(int64(n)))))
	out := SV{Typ: x.Type(), T: []Term{idx}}
	recvOk := vc.fresh("sel_ok", SBool)
	out.T = append(out.T, recvOk)
	var knownReady []Term
	recvVals := map[int]SV{}
	sentVals := map[int]SV{} // `sendval` in select anchors of send cases
	for k, s := range x.States {
		chosen := mkEq(idx, num(int64(k)))
		sub := st.clone()
		sub.guard = vc.define("g_sel", SBool, mkAnd(st.guard, chosen))
		c := fc.val(s.Chan).one()
		closed := fc.ghostGet(st, "chanClosed", SBool, c)
		if s.Dir == types.SendOnly {
			fc.chanInv(sub, s.Chan, fc.val(s.Send), true, s.Pos, fmt.Sprintf("select#%d case %d send", fc.selectOrd(x), k))
			sentVals[k] = fc.val(s.Send)
			continue
		}
		fc.timerRecv(st, s.Chan, chosen)
		running, delivers := fc.deliversOK(st, s.Chan)
		fc.joinRecv(st, s.Chan, chosen)
		et := s.Chan.Type().Underlying().(*types.Chan).Elem()
		v := vc.havoc(et, fmt.Sprintf("sel%d", k), st.alloc)
		okc := vc.fresh("selrecv_ok", SBool)
		if fc.e.neverClosed(fc.chanField(s.Chan)) {
			vc.assume(sub, okc)
		}
		if delivers {
			vc.assume(sub, mkImp(running, okc))
		}
		vsub := sub.clone()
		vsub.guard = vc.define("g_selv", SBool, mkAnd(sub.guard, okc))
		fc.chanInv(vsub, s.Chan, v, false, s.Pos, "recv")
		vc.assume(sub, mkImp(mkNot(okc), svEq(v, vc.zero(et))))
		vc.assume(sub, mkEq(recvOk, okc))
		out.T = append(out.T, v.T...)
		recvVals[k] = v
		// a closed channel is always ready to receive
		knownReady = append(knownReady, mkAnd(mkNot(mkEq(c, "0")), closed))
	}
	// select anchors: `at select#k case j set/assert ...`
	if fc.contract != nil {
		ord := fc.selectOrd(x)
		for _, a := range fc.contract.Ats {
			if a.Kind != "select" || a.Ord != ord {
				continue
			}
			a := a
			fc.vc.atMatched[fmt.Sprintf("%s:%d", a.C.File, a.C.Line)] = true
			chosen := mkEq(idx, num(int64(a.Case)))
			env := fc.env(st, x.Block())
			env.atInstr = x
			if rv, ok := recvVals[a.Case]; ok {
				env.vars["result"] = rv
			}
			if sv, ok := sentVals[a.Case]; ok {
				env.vars["sendval"] = sv
			}
			if a.Case >= 0 && a.Case < len(x.States) {
				// selchan: the channel operand of this case
				env.vars["selchan"] = fc.val(x.States[a.Case].Chan)
			}
			fc.vc.safeEval(fmt.Sprintf("%s:%d at select", a.C.File, a.C.Line), func() {
				switch a.What {
				case "set":
					fc.ghostAssignCond(st, env, a.SetLHS, a.C.E, x, chosen)
				case "assert":
					sub := st.clone()
					sub.guard = vc.define("g_selat", SBool, mkAnd(st.guard, chosen))
					fc.vc.oblige(sub, "assert", a.C.Label, fmt.Sprintf("at select#%d case %d:%s", ord, a.Case, a.C.Label), fc.e.pos(x.Pos()), env.evalBool(a.C.E))
				case "assume":
					fc.vc.assume(st, mkImp(chosen, env.evalBool(a.C.E)))
					fc.vc.note(fmt.Sprintf("ASSUME at select#%d case %d in %s: %s", ord, a.Case, fc.name, a.C.Src))
				}
			})
		}
	}
	if !x.Blocking {
		// default is taken only if no case is known to be ready
		vc.assume(st, mkImp(mkEq(idx, "(- 1)"), mkNot(mkOr(knownReady...))))
	}
	fc.vals[x] = out
}

func (fc *FnCtx) selectOrd(x *ssa.Select) int {
	k := 0
	for _, b := range fc.fn.Blocks {
		for _, in := range b.Instrs {
			if s, ok := in.(*ssa.Select); ok {
				if s == x {
					return k
				}
				k++
			}
		}
	}
	return -1
}
