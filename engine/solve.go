package main

// Discharging obligations: per-unit incremental scripts on the primary solver,
// Houdini pruning of candidate loop invariants, portfolio re-check of anything
// that is not `unsat`.

import (
	"bufio"
	"bytes"
	"context"
	"encoding/json"
	"fmt"
	"os"
	"os/exec"
	"path/filepath"
	"sort"
	"strings"
	"sync"
	"sync/atomic"
	"time"
)

type solverSpec struct {
	name string
	argv func(timeoutMs int) []string
}

var solvers = []solverSpec{
	{"z3-new", func(ms int) []string { return []string{"z3-new", "-in", fmt.Sprintf("-t:%d", ms)} }},
	{"cvc5", func(ms int) []string {
		return []string{"cvc5", "--lang=smt2", "--incremental", "--produce-models", fmt.Sprintf("--tlimit-per=%d", ms)}
	}},
	{"z3", func(ms int) []string { return []string{"z3", "-in", fmt.Sprintf("-t:%d", ms)} }},
	// diversified configurations of the primary solver: quantifier-heavy goals are
	// sensitive to instantiation order, and one of these usually finds the proof
	// the default misses (all are sound; first definitive answer wins)
	{"z3-new(seed=2)", func(ms int) []string { return []string{"z3-new", "-in", fmt.Sprintf("-t:%d", ms), "smt.random_seed=2"} }},
	{"z3-new(qi-eager=100)", func(ms int) []string {
		return []string{"z3-new", "-in", fmt.Sprintf("-t:%d", ms), "smt.qi.eager_threshold=100"}
	}},
	{"z3-new(seed=5,qi-eager=50)", func(ms int) []string {
		return []string{"z3-new", "-in", fmt.Sprintf("-t:%d", ms), "smt.random_seed=5", "smt.qi.eager_threshold=50"}
	}},
}

func (vc *VC) preamble(flags map[int]bool) string {
	return vc.preambleOpt(flags, false)
}

// preambleFor: the hypotheses in scope of obligation o (program order).
func (vc *VC) preambleFor(flags map[int]bool, o *Oblig, qfOnly bool) string {
	var sb strings.Builder
	sb.WriteString(vc.header(flags))
	for i, a := range vc.asserts {
		if !(i < o.Upto || vc.aglobal[i]) {
			continue
		}
		if qfOnly && (strings.Contains(a, "(forall ") || strings.Contains(a, "(exists ")) {
			continue
		}
		sb.WriteString("(assert ")
		sb.WriteString(a)
		sb.WriteString(")\n")
	}
	return sb.String()
}

// preambleOpt: with qfOnly the quantified hypotheses are dropped (a weaker
// hypothesis set: used only to obtain candidate counterexamples quickly).
func (vc *VC) preambleOpt(flags map[int]bool, qfOnly bool) string {
	var sb strings.Builder
	sb.WriteString("(set-option :produce-models true)\n(set-logic ALL)\n")
	for _, d := range vc.decls {
		sb.WriteString(d)
		sb.WriteByte('\n')
	}
	for _, a := range vc.asserts {
		if qfOnly && (strings.Contains(a, "(forall ") || strings.Contains(a, "(exists ")) {
			continue
		}
		sb.WriteString("(assert ")
		sb.WriteString(a)
		sb.WriteString(")\n")
	}
	for _, c := range vc.cands {
		if flags[c.ID] {
			fmt.Fprintf(&sb, "(assert %s)\n", c.Flag)
		} else {
			fmt.Fprintf(&sb, "(assert (not %s))\n", c.Flag)
		}
	}
	return sb.String()
}

// header: options, declarations and candidate flags only.
func (vc *VC) header(flags map[int]bool) string {
	var sb strings.Builder
	sb.WriteString("(set-option :produce-models true)\n(set-logic ALL)\n")
	for _, d := range vc.decls {
		sb.WriteString(d)
		sb.WriteByte('\n')
	}
	for _, c := range vc.cands {
		if flags[c.ID] {
			fmt.Fprintf(&sb, "(assert %s)\n", c.Flag)
		} else {
			fmt.Fprintf(&sb, "(assert (not %s))\n", c.Flag)
		}
	}
	return sb.String()
}

func (vc *VC) slicedAsserts(sl *slicer, o *Oblig) string {
	return vc.slicedAssertsMode(sl, o, false)
}

// focused: for the inductive step of a labelled loop invariant, leave out the
// quantified assumptions of the *other* labelled invariants of the unit (a smaller,
// still sound hypothesis set; the complete sets are tried afterwards).
func (vc *VC) slicedAssertsMode(sl *slicer, o *Oblig, focused bool) string {
	inc := sl.slice(o.Upto, o.Guard, o.Goal)
	if focused && o.Kind == "invariant" && o.Label != "" && strings.Contains(o.Name, " step:") {
		for i, lbl := range vc.invAssume {
			if i < len(inc) && inc[i] && lbl != o.Label && strings.Contains(vc.asserts[i], "(forall ") {
				inc[i] = false
			}
		}
	}
	var sb strings.Builder
	for i, a := range vc.asserts {
		if inc[i] {
			sb.WriteString("(assert ")
			sb.WriteString(a)
			sb.WriteString(")\n")
		}
	}
	return sb.String()
}

func (vc *VC) slicedQuery(sl *slicer, o *Oblig, k int) string {
	return fmt.Sprintf("(push 1)\n%s(assert %s)\n(assert (not %s))\n(echo \"@@%d\")\n(check-sat)\n(pop 1)\n", vc.slicedAssertsMode(sl, o, true), o.Guard, o.Goal, k)
}

func obligQuery(o *Oblig, k int) string {
	return fmt.Sprintf("(push 1)\n(assert %s)\n(assert (not %s))\n(echo \"@@%d\")\n(check-sat)\n(pop 1)\n", o.Guard, o.Goal, k)
}

type checkRes struct {
	status string
	timeS  float64
}

// runScript feeds an incremental script to a solver and returns the verdicts
// by marker index.
func runScript(sv solverSpec, script string, n int, timeoutMs int) map[int]checkRes {
	out := map[int]checkRes{}
	budget := time.Duration(timeoutMs*(n+2))*time.Millisecond + 20*time.Second
	if budget > 150*time.Second {
		budget = 150 * time.Second
	}
	ctx, cancel := context.WithTimeout(context.Background(), budget)
	defer cancel()
	argv := sv.argv(timeoutMs)
	cmd := exec.CommandContext(ctx, argv[0], argv[1:]...)
	cmd.Stdin = strings.NewReader(script)
	stdout, err := cmd.StdoutPipe()
	if err != nil {
		return out
	}
	cmd.Stderr = nil
	if err := cmd.Start(); err != nil {
		return out
	}
	sc := bufio.NewScanner(stdout)
	sc.Buffer(make([]byte, 1<<20), 1<<26)
	cur := -1
	last := time.Now()
	for sc.Scan() {
		line := strings.TrimSpace(sc.Text())
		line = strings.Trim(line, "\"")
		if strings.HasPrefix(line, "@@") {
			fmt.Sscanf(line[2:], "%d", &cur)
			last = time.Now()
			continue
		}
		switch line {
		case "sat", "unsat", "unknown", "timeout":
			if cur >= 0 {
				if _, dup := out[cur]; !dup {
					out[cur] = checkRes{line, time.Since(last).Seconds()}
				}
			}
		}
	}
	cmd.Wait()
	return out
}

// singleQuery checks one obligation in a fresh solver process and, when sat,
// asks for the values of the given terms.
func singleQuery(sv solverSpec, pre string, o *Oblig, timeoutMs int, values []string) (status, model, raw string, secs float64) {
	return singleQueryCtx(context.Background(), sv, pre, o, timeoutMs, values)
}

func singleQueryCtx(parent context.Context, sv solverSpec, pre string, o *Oblig, timeoutMs int, values []string) (status, model, raw string, secs float64) {
	var sb strings.Builder
	sb.WriteString(pre)
	fmt.Fprintf(&sb, "(assert %s)\n(assert (not %s))\n(check-sat)\n", o.Guard, o.Goal)
	script := sb.String()
	if len(values) > 0 {
		script += "(get-value (" + strings.Join(values, " ") + "))\n"
	}
	ctx, cancel := context.WithTimeout(parent, time.Duration(timeoutMs)*time.Millisecond+10*time.Second)
	defer cancel()
	argv := sv.argv(timeoutMs)
	cmd := exec.CommandContext(ctx, argv[0], argv[1:]...)
	cmd.Stdin = strings.NewReader(script)
	var buf bytes.Buffer
	cmd.Stdout = &buf
	cmd.Stderr = &buf
	t0 := time.Now()
	cmd.Run()
	secs = time.Since(t0).Seconds()
	raw = buf.String()
	lines := strings.SplitN(raw, "\n", 2)
	status = strings.TrimSpace(lines[0])
	switch status {
	case "sat", "unsat", "unknown", "timeout":
	default:
		status = "error"
	}
	if status == "sat" && len(lines) > 1 {
		model = strings.TrimSpace(lines[1])
	}
	return
}

func (o SolveOpts) maxRecheck() int {
	if o.MaxRecheck > 0 {
		return o.MaxRecheck
	}
	return 40
}

// rawQuery runs a complete script and returns the first verdict line.
func rawQuery(sv solverSpec, script string, timeoutMs int) (status, model, raw string, secs float64) {
	ctx, cancel := context.WithTimeout(context.Background(), time.Duration(timeoutMs)*time.Millisecond+10*time.Second)
	defer cancel()
	argv := sv.argv(timeoutMs)
	cmd := exec.CommandContext(ctx, argv[0], argv[1:]...)
	cmd.Stdin = strings.NewReader(script)
	var buf bytes.Buffer
	cmd.Stdout = &buf
	cmd.Stderr = &buf
	t0 := time.Now()
	cmd.Run()
	secs = time.Since(t0).Seconds()
	raw = buf.String()
	status = strings.TrimSpace(strings.SplitN(raw, "\n", 2)[0])
	switch status {
	case "sat", "unsat", "unknown", "timeout":
	default:
		status = "error"
	}
	return
}

type SolveOpts struct {
	MaxRecheck int
	TimeoutMs  int
	RecheckMs  int
	AllSolvers bool // thorough: run every solver on every non-trivial obligation
	DumpDir    string
}

// solveUnit discharges all obligations of a VC. Returns the surviving
// candidate flags.
func solveUnit(vc *VC, opts SolveOpts) map[int]bool {
	tPhase := time.Now()
	phase := func(name string) {
		if os.Getenv("CBV_PROF") != "" {
			fmt.Fprintf(os.Stderr, "PROF %s %s %.1fs\n", vc.unit, name, time.Since(tPhase).Seconds())
		}
		tPhase = time.Now()
	}
	defer phase("premise+dump")
	primary := solvers[0]
	sl := newSlicer(vc)
	flags := map[int]bool{}
	for _, c := range vc.cands {
		flags[c.ID] = true
	}
	// trivial goals
	for _, o := range vc.obligs {
		if o.Goal == "true" || o.Guard == "false" {
			o.Status, o.Solver = "unsat", "trivial"
		}
	}
	// Houdini
	if len(vc.cands) > 0 {
		for round := 0; round < 12; round++ {
			var sb strings.Builder
			sb.WriteString(vc.header(flags))
			var idx []int
			for i, o := range vc.obligs {
				if o.Cand >= 0 && flags[o.Cand] && o.Status != "unsat" {
					sb.WriteString(vc.slicedQuery(sl, o, i))
					idx = append(idx, i)
				}
			}
			if len(idx) == 0 {
				break
			}
			res := runScript(primary, "(set-option :smt.mbqi false)\n"+sb.String(), len(idx), 1000)
			changed := false
			for _, i := range idx {
				o := vc.obligs[i]
				r, ok := res[i]
				if !ok || r.status != "unsat" {
					if flags[o.Cand] {
						flags[o.Cand] = false
						changed = true
					}
				}
			}
			if !changed {
				break
			}
		}
	}
	phase("houdini")
	// real obligations
	pre := vc.preamble(flags)
	hdr := vc.header(flags)
	// vacuity: some return must be reachable under the hypotheses
	if vc.cover != "" && vc.cover != "false" {
		q := vc.preambleOpt(flags, true) + "(echo \"@@0\")\n(assert " + vc.cover + ")\n(check-sat)\n"
		r := runScript(primary, q, 1, 2000)
		vc.coverSt = r[0].status
	} else if vc.cover == "false" {
		vc.coverSt = "no-return"
	}
	// must-fail probe: `false` must not be provable at the returns from the full
	// hypothesis set (catches contradictory quantified assumptions)
	if vc.cover != "" && vc.cover != "false" && vc.coverSt != "unsat" {
		q := pre + "(assert " + vc.cover + ")\n(check-sat)\n"
		ch := make(chan string, 2)
		for _, sv := range []solverSpec{solvers[0], solvers[1]} {
			go func(sv solverSpec) {
				st, _, _, _ := rawQuery(sv, q, 1500)
				ch <- st
			}(sv)
		}
		for i := 0; i < 2; i++ {
			if <-ch == "unsat" {
				vc.coverSt = "unsat"
			}
		}
	}
	phase("cover+mustfail")
	var sb strings.Builder
	sb.WriteString(pre)
	var idx []int
	for i, o := range vc.obligs {
		if o.Cand >= 0 || o.Status == "unsat" {
			continue
		}
		sb.WriteString(obligQuery(o, i))
		idx = append(idx, i)
	}
	if opts.DumpDir != "" {
		os.MkdirAll(opts.DumpDir, 0o755)
		os.WriteFile(filepath.Join(opts.DumpDir, sanitize(vc.unit)+".smt2"), []byte(sb.String()), 0o644)
	}
	// Pass 1 (primary solver, sliced hypotheses, short timeout) in chunks, each
	// chunk followed by the portfolio re-check of what it left open. A unit that
	// already has more than 10 *confirmed* failures is not explored further.
	// Chunks are independent solver processes: they run concurrently (bounded by
	// chunkSem across all units of the run).
	var confirmed, nre int64
	var cwg sync.WaitGroup
	for lo := 0; lo < len(idx); lo += 25 {
		hi := lo + 25
		if hi > len(idx) {
			hi = len(idx)
		}
		cwg.Add(1)
		go func(lo, hi int) {
			defer cwg.Done()
			chunkSem <- struct{}{}
			defer func() { <-chunkSem }()
			if atomic.LoadInt64(&confirmed) > 10 {
				for _, i := range idx[lo:hi] {
					vc.obligs[i].Status, vc.obligs[i].Solver = "unknown", "not-attempted"
				}
				return
			}
			tb := time.Now()
			var cs strings.Builder
			cs.WriteString("(set-option :smt.mbqi false)\n")
			cs.WriteString(hdr)
			for _, i := range idx[lo:hi] {
				cs.WriteString(vc.slicedQuery(sl, vc.obligs[i], i))
			}
			if os.Getenv("CBV_PROF") != "" {
				fmt.Fprintf(os.Stderr, "PROF chunk %d: build %.1fs\n", lo, time.Since(tb).Seconds())
			}
			if os.Getenv("CBV_DUMP_CHUNK") != "" {
				os.WriteFile(fmt.Sprintf("/tmp/chunk_%s_%d.smt2", sanitize(vc.unit), lo), []byte(cs.String()), 0o644)
			}
			tc := time.Now()
			res := runScript(primary, cs.String(), hi-lo, 2000)
			if os.Getenv("CBV_PROF") != "" {
				fmt.Fprintf(os.Stderr, "PROF chunk %d: script %d KB, solver %.1fs\n", lo, cs.Len()/1024, time.Since(tc).Seconds())
			}
			for _, i := range idx[lo:hi] {
				o := vc.obligs[i]
				if r, ok := res[i]; ok {
					o.Status, o.Solver, o.TimeS = r.status, primary.name, r.timeS
				} else {
					o.Status, o.Solver = "error", primary.name
				}
			}
			var wg sync.WaitGroup
			for _, i := range idx[lo:hi] {
				o := vc.obligs[i]
				if o.Status == "unsat" && !opts.AllSolvers {
					continue
				}
				if o.Status != "unsat" {
					if atomic.AddInt64(&nre, 1) > int64(opts.maxRecheck()) {
						o.Status, o.Solver = "unknown", "not-rechecked"
						continue
					}
				}
				wg.Add(1)
				go func(o *Oblig) {
					defer wg.Done()
					// first on the sliced hypothesis set, then on the full one
					if o.Status == "unsat" && opts.AllSolvers {
						// thorough tier cross-check of an obligation the primary solver
						// already discharged: every back end gets a short budget; only a
						// contradicting `sat` changes the verdict
						prev := *o
						cross := opts
						cross.RecheckMs = 5000
						recheck(vc, hdr+vc.slicedAsserts(sl, o), o, cross)
						if o.Status != "disagree" && o.Status != "sat" {
							note := o.Note
							*o = prev
							o.Note = "cross-check: " + note
						} else {
							o.Status = "disagree"
						}
						return
					}
					// (the sliced set can lack a needed hypothesis: short budget there)
					short := opts
					if short.RecheckMs > 3000 && !opts.AllSolvers {
						short.RecheckMs = 3000
					}
					recheck(vc, hdr+vc.slicedAsserts(sl, o), o, short)
					if o.Status != "unsat" {
						recheck(vc, vc.preambleFor(flags, o, false), o, opts)
					}
					if o.Status != "unsat" {
						o.Model = ""
						// candidate counterexample from the quantifier-free weakening of the
						// hypotheses (to be confirmed by replay on the real code)
						keys := vc.modelKeys(vc.e, vc.unit)
						var values []string
						for _, k := range keys {
							values = append(values, k.Term)
						}
						st, model, _, _ := singleQuery(solvers[0], vc.preambleFor(flags, o, true), o, 5000, values)
						if st == "sat" && len(keys) > 0 {
							vals := parseModelOrdered(model)
							mm := map[string]string{}
							for i, k := range keys {
								if i < len(vals) {
									mm[k.Key] = vals[i]
								}
							}
							b, _ := json.Marshal(mm)
							o.Model = string(b)
							o.Note += "[candidate model from the quantifier-free weakening of the hypotheses]\n"
						}
					}
				}(o)
			}
			tr := time.Now()
			wg.Wait()
			if os.Getenv("CBV_PROF") != "" {
				fmt.Fprintf(os.Stderr, "PROF chunk %d: rechecks %.1fs\n", lo, time.Since(tr).Seconds())
			}
			for _, i := range idx[lo:hi] {
				if vc.obligs[i].Status != "unsat" {
					atomic.AddInt64(&confirmed, 1)
				}
			}
		}(lo, hi)
	}
	cwg.Wait()
	phase("obligations")
	vc.premiseCheck(flags)
	if opts.DumpDir != "" {
		for _, i := range idx {
			o := vc.obligs[i]
			if o.Status != "unsat" || (os.Getenv("CBV_DUMP_OB") != "" && strings.Contains(o.Name, os.Getenv("CBV_DUMP_OB"))) {
				q := vc.preambleFor(flags, o, false) + fmt.Sprintf("(assert %s)\n(assert (not %s))\n(check-sat)\n", o.Guard, o.Goal)
				os.WriteFile(filepath.Join(opts.DumpDir, sanitize(o.Name)+".smt2"), []byte(q), 0o644)
				q2 := hdr + vc.slicedAsserts(sl, o) + fmt.Sprintf("(assert %s)\n(assert (not %s))\n(check-sat)\n", o.Guard, o.Goal)
				os.WriteFile(filepath.Join(opts.DumpDir, sanitize(o.Name)+".sliced.smt2"), []byte(q2), 0o644)
			}
		}
	}
	return flags
}

var solverSem = make(chan struct{}, 24)

// chunkSem bounds the number of pass-1 solver processes of the whole run.
var chunkSem = make(chan struct{}, 16)

func recheck(vc *VC, pre string, o *Oblig, opts SolveOpts) {
	type ans struct {
		solver, status, model, raw string
		secs                       float64
	}
	ch := make(chan ans, len(solvers))
	var values []string
	for _, d := range vc.decls {
		// ask for the parameter-related constants (p_*, sel!, recv*) to build replays
		f := strings.Fields(d)
		if len(f) >= 4 && f[2] == "()" && (strings.HasPrefix(f[1], "p_") || strings.HasPrefix(f[1], "fv_") || strings.HasPrefix(f[1], "sel!") || f[1] == "alloc0") && (f[3] == "Int" || f[3] == "Bool") {
			values = append(values, f[1])
		}
	}
	ctx, cancel := context.WithCancel(context.Background())
	defer cancel()
	for _, sv := range solvers {
		go func(sv solverSpec) {
			solverSem <- struct{}{}
			defer func() { <-solverSem }()
			if ctx.Err() != nil {
				ch <- ans{sv.name, "cancelled", "", "", 0}
				return
			}
			st, model, raw, secs := singleQueryCtx(ctx, sv, pre, o, opts.RecheckMs, values)
			ch <- ans{sv.name, st, model, raw, secs}
		}(sv)
	}
	var all []ans
	for range solvers {
		a := <-ch
		all = append(all, a)
		if !opts.AllSolvers && (a.status == "sat" || a.status == "unsat") {
			cancel()
		}
	}
	sort.Slice(all, func(i, j int) bool { return all[i].solver < all[j].solver })
	var sat, unsat *ans
	for i := range all {
		switch all[i].status {
		case "sat":
			if sat == nil {
				sat = &all[i]
			}
		case "unsat":
			if unsat == nil || all[i].secs < unsat.secs {
				unsat = &all[i]
			}
		}
	}
	var rawAll strings.Builder
	for _, a := range all {
		fmt.Fprintf(&rawAll, "[%s %.2fs] %s\n", a.solver, a.secs, firstLines(a.raw, 3))
	}
	o.Note = rawAll.String()
	switch {
	case sat != nil && unsat != nil:
		o.Status, o.Solver = "disagree", sat.solver+"/"+unsat.solver
		o.Model = sat.model
	case unsat != nil:
		o.Status, o.Solver, o.TimeS = "unsat", unsat.solver, unsat.secs
	case sat != nil:
		o.Status, o.Solver, o.TimeS, o.Model = "sat", sat.solver, sat.secs, sat.model
	default:
		o.Status, o.Solver = "unknown", "all"
	}
}

func firstLines(s string, n int) string {
	lines := strings.Split(strings.TrimSpace(s), "\n")
	if len(lines) > n {
		lines = lines[:n]
	}
	return strings.Join(lines, " | ")
}

// antecedent returns A for a goal of the form (=> A B).
func antecedent(goal Term) (Term, bool) {
	if !strings.HasPrefix(goal, "(=> ") {
		return "", false
	}
	rest := goal[4:]
	if strings.HasPrefix(rest, "(") {
		d := 0
		for i := 0; i < len(rest); i++ {
			switch rest[i] {
			case '(':
				d++
			case ')':
				d--
				if d == 0 {
					return rest[:i+1], true
				}
			}
		}
		return "", false
	}
	k := strings.Index(rest, " ")
	if k < 0 {
		return "", false
	}
	return rest[:k], true
}

// premiseCheck: a labelled ensures/assert clause of the form A ==> B whose premise
// A is unsatisfiable at every place it is checked proves nothing (vacuous). For
// each (kind, label) at least one instance must have a satisfiable premise.
func (vc *VC) premiseCheck(flags map[int]bool) {
	type grp struct {
		obs   []*Oblig
		alive bool
	}
	groups := map[string]*grp{}
	var order []string
	for _, o := range vc.obligs {
		if o.Cand >= 0 || (o.Kind != "ensures" && o.Kind != "assert") || o.Label == "" {
			continue
		}
		key := o.Kind + ":" + o.Label
		g := groups[key]
		if g == nil {
			g = &grp{}
			groups[key] = g
			order = append(order, key)
		}
		if _, ok := antecedent(o.Goal); !ok {
			g.alive = true // not an implication at this site: nothing to check
		}
		g.obs = append(g.obs, o)
	}
	var mu sync.Mutex
	var wg sync.WaitGroup
	for _, key := range order {
		g := groups[key]
		if g.alive {
			continue
		}
		wg.Add(1)
		go func(key string, g *grp) {
			defer wg.Done()
			for _, o := range g.obs {
				a, _ := antecedent(o.Goal)
				q := vc.preambleFor(flags, o, true) + fmt.Sprintf("(assert %s)\n(assert %s)\n(check-sat)\n", o.Guard, a)
				solverSem <- struct{}{}
				st, _, _, _ := rawQuery(solvers[0], q, 1500)
				<-solverSem
				if st != "unsat" {
					return // premise reachable (or undecided): fine
				}
			}
			mu.Lock()
			vc.vacuous = append(vc.vacuous, key)
			mu.Unlock()
		}(key, g)
	}
	wg.Wait()
	sort.Strings(vc.vacuous)
}

// deadGuards (audit aid): path conditions under which some obligation is checked
// and that are unsatisfiable together with the unit's hypotheses. Such a path is
// either genuinely dead code or — the reason for this audit — made unreachable by
// contradictory hypotheses, in which case everything on it is proved vacuously.
func deadGuards(vc *VC, flags map[int]bool, timeoutMs int) []string {
	type ex struct{ name, pos string }
	seen := map[Term]ex{}
	var order []Term
	for _, o := range vc.obligs {
		if o.Cand >= 0 || o.Guard == "true" || o.Guard == "false" {
			continue
		}
		if _, ok := seen[o.Guard]; !ok {
			seen[o.Guard] = ex{o.Name, o.Pos}
			order = append(order, o.Guard)
		}
	}
	pre := vc.preamble(flags)
	var out []string
	var mu sync.Mutex
	var wg sync.WaitGroup
	for lo := 0; lo < len(order); lo += 8 {
		hi := lo + 8
		if hi > len(order) {
			hi = len(order)
		}
		wg.Add(1)
		go func(lo, hi int) {
			defer wg.Done()
			solverSem <- struct{}{}
			defer func() { <-solverSem }()
			var sb strings.Builder
			sb.WriteString("(set-option :smt.mbqi false)\n")
			sb.WriteString(pre)
			for k := lo; k < hi; k++ {
				fmt.Fprintf(&sb, "(push 1)\n(assert %s)\n(echo \"@@%d\")\n(check-sat)\n(pop 1)\n", order[k], k)
			}
			res := runScript(solvers[0], sb.String(), hi-lo, timeoutMs)
			for k := lo; k < hi; k++ {
				if r, ok := res[k]; ok && r.status == "unsat" {
					e := seen[order[k]]
					line := fmt.Sprintf("%s (%s) guard %s", e.name, e.pos, order[k])
					if os.Getenv("CBV_CORE") != "" {
						line += "\n" + unsatCore(vc, flags, order[k])
					}
					mu.Lock()
					out = append(out, line)
					mu.Unlock()
				}
			}
		}(lo, hi)
	}
	wg.Wait()
	sort.Strings(out)
	return out
}

// unsatCore names every hypothesis and asks z3 for a core of hyps + guard.
func unsatCore(vc *VC, flags map[int]bool, guard Term) string {
	var sb strings.Builder
	sb.WriteString("(set-option :produce-unsat-cores true)\n(set-option :smt.mbqi false)\n")
	sb.WriteString(vc.header(flags))
	for i, a := range vc.asserts {
		fmt.Fprintf(&sb, "(assert (! %s :named hyp%d))\n", a, i)
	}
	fmt.Fprintf(&sb, "(assert %s)\n(check-sat)\n(get-unsat-core)\n", guard)
	_, _, raw, _ := rawQuery(solvers[0], sb.String(), 5000)
	var out strings.Builder
	lines := strings.Split(raw, "\n")
	if len(lines) < 2 {
		return "      (no core: " + firstLines(raw, 1) + ")"
	}
	for _, w := range strings.Fields(strings.Trim(lines[1], "()")) {
		var k int
		if _, err := fmt.Sscanf(w, "hyp%d", &k); err == nil && k < len(vc.asserts) {
			a := vc.asserts[k]
			if len(a) > 300 {
				a = a[:300] + "..."
			}
			fmt.Fprintf(&out, "      core %s\n", a)
		}
	}
	return out.String()
}
