package main

// Verification-condition container, symbolic state, heap columns and lvalues.

import (
	"fmt"
	"os"
	"go/types"
	"sort"
	"strings"
)

type Oblig struct {
	Name   string // stable name: <func>#<kind>[detail]
	Kind   string // safety, requires, ensures, invariant, assert, frame, decreases
	Label  string
	Pos    string
	Guard  Term // program point reached
	Goal   Term
	Unit   string
	Upto   int    // only hypotheses asserted before this index are in scope (program order)
	Cand   int    // >=0: Houdini candidate obligation for candidate id
	Note   string // human readable
	Status string // filled by solver: unsat/sat/unknown/timeout
	Solver string
	TimeS  float64
	Model  string
}

type Candidate struct {
	ID   int
	Flag Term // Bool const enabling the assumption
	Desc string
	Loop string
}

type State struct {
	guard Term
	heap  map[string]Term // column -> current version (absent: initial version)
	alloc Term
	dead  bool
}

func (s *State) clone() *State {
	h := make(map[string]Term, len(s.heap))
	for k, v := range s.heap {
		h[k] = v
	}
	return &State{guard: s.guard, heap: h, alloc: s.alloc, dead: s.dead}
}

type VC struct {
	invAssume map[int]string // assert index -> label of the declared loop invariant assumed there
	e       *Engine
	unit    string
	decls   []string
	asserts []string
	adef    []string // parallel to asserts: symbol defined by the assert ("" = assumption)
	aglobal []bool   // parallel to asserts: axiom valid at every program point
	obligs  []*Oblig
	cands   []*Candidate
	n       int
	cols    map[string]Sort // column name -> sort of the column
	colDecl map[string]bool
	ufDecl  map[string]bool
	notes   map[string]bool // assumptions / abstractions used (for evidence)
	usedUF  map[string]bool
	atMatched map[string]bool // at-call anchors that matched a call site
	old     *State
	names   map[string]int // obligation name de-duplication
	stores  map[Term]storeRec
	refAx   map[string]bool
	dry     int            // >0: dry run (loop scanning); output discarded
	err     error
	cover   Term   // disjunction of the guards of all returns (vacuity check)
	coverSt string // verdict of the cover query: sat/unknown = fine, unsat = vacuous
	vacuous []string // clauses whose premise is unsatisfiable wherever they are checked
}

func newVC(e *Engine, unit string) *VC {
	vc := &VC{e: e, unit: unit, cols: map[string]Sort{}, colDecl: map[string]bool{}, ufDecl: map[string]bool{},
		notes: map[string]bool{}, names: map[string]int{}, usedUF: map[string]bool{}, atMatched: map[string]bool{}}
	vc.declare("alloc0", SInt)
	vc.assert(mkLe("1", "alloc0"))
	vc.old = &State{guard: "true", heap: map[string]Term{}, alloc: "alloc0"}
	return vc
}

func (vc *VC) declare(name string, s Sort) {
	vc.decls = append(vc.decls, fmt.Sprintf("(declare-fun %s () %s)", name, s))
}

func (vc *VC) fresh(prefix string, s Sort) Term {
	vc.n++
	name := fmt.Sprintf("%s!%d", sanitize(prefix), vc.n)
	vc.declare(name, s)
	return name
}

func (vc *VC) assert(t Term) {
	if t == "true" || t == "" {
		return
	}
	vc.asserts = append(vc.asserts, t)
	vc.adef = append(vc.adef, "")
	vc.aglobal = append(vc.aglobal, false)
}

// assertGlobal adds an axiom that does not depend on the program point.
func (vc *VC) assertGlobal(t Term) {
	if t == "true" || t == "" {
		return
	}
	vc.asserts = append(vc.asserts, t)
	vc.adef = append(vc.adef, "")
	vc.aglobal = append(vc.aglobal, true)
}

// assertDef records a (possibly guarded) definition of sym; hypothesis slicing
// includes it only when sym is relevant.
func (vc *VC) assertDef(sym string, t Term) {
	if t == "true" || t == "" {
		return
	}
	vc.asserts = append(vc.asserts, t)
	vc.adef = append(vc.adef, sym)
	vc.aglobal = append(vc.aglobal, false)
}

// defEq asserts guard => a == b leaf by leaf, each as a definition of a's leaf.
func (vc *VC) defEq(guard Term, a, b SV) {
	for i := range a.T {
		if a.T[i] == b.T[i] {
			continue
		}
		vc.assertDef(a.T[i], mkImp(guard, mkEq(a.T[i], b.T[i])))
	}
}

// assume adds a hypothesis that holds whenever the program point is reached.
func (vc *VC) assume(st *State, t Term) {
	vc.assert(mkImp(st.guard, t))
}

func (vc *VC) note(s string) { vc.notes[s] = true }

func (vc *VC) declUF(name string, args []Sort, res Sort) {
	if vc.ufDecl[name] {
		return
	}
	vc.ufDecl[name] = true
	var as []string
	for _, a := range args {
		as = append(as, a.String())
	}
	vc.decls = append(vc.decls, fmt.Sprintf("(declare-fun %s (%s) %s)", name, strings.Join(as, " "), res))
}

// define introduces a named constant equal to term (keeps scripts linear in size).
func (vc *VC) define(prefix string, s Sort, term Term) Term {
	if isNum(term) || term == "true" || term == "false" || !strings.HasPrefix(term, "(") {
		return term
	}
	n := vc.fresh(prefix, s)
	vc.assertDef(n, mkEq(n, term))
	return n
}

func (vc *VC) oblige(st *State, kind, label, detail, pos string, goal Term) *Oblig {
	if goal == "true" {
		// trivially discharged by construction; still counted
	}
	base := fmt.Sprintf("%s#%s[%s]", vc.unit, kind, detail)
	vc.names[base]++
	name := base
	if k := vc.names[base]; k > 1 {
		name = fmt.Sprintf("%s#%s[%s#%d]", vc.unit, kind, detail, k)
	}
	o := &Oblig{Name: name, Kind: kind, Label: label, Pos: pos, Guard: st.guard, Goal: goal, Unit: vc.unit, Cand: -1, Upto: len(vc.asserts)}
	vc.obligs = append(vc.obligs, o)
	return o
}

// ---------- heap columns ----------

func (vc *VC) colInit(col string, s Sort) Term {
	name := "H0_" + sanitize(col)
	if !vc.colDecl[col] {
		vc.colDecl[col] = true
		vc.cols[col] = s
		vc.declare(name, s)
	} else if vc.cols[col] != s {
		panic(fmt.Sprintf("column %s used with sorts %s and %s", col, vc.cols[col], s))
	}
	return name
}

func (vc *VC) colGet(st *State, col string, s Sort) Term {
	init := vc.colInit(col, s)
	if v, ok := st.heap[col]; ok {
		return v
	}
	return init
}

func (vc *VC) colSet(st *State, col string, s Sort, v Term) {
	vc.colInit(col, s)
	st.heap[col] = vc.define("H_"+col, s, v)
}

// storeRec remembers how a column version was built from its predecessor by a
// single store, so that specification reads can be expanded to
// read-over-write form (which exposes the predecessor's select terms to
// quantifier instantiation).
type storeRec struct {
	prev Term
	key  Term
	idx  Term // "" for one-level columns
	val  Term
}

func (vc *VC) colSetStore(st *State, col string, s Sort, prev, key, idx, val Term) {
	var t Term
	if idx == "" {
		t = mkSto(prev, key, val)
	} else {
		t = mkSto(prev, key, mkSto(mkSel(prev, key), idx, val))
	}
	vc.colSet(st, col, s, t)
	if vc.stores == nil {
		vc.stores = map[Term]storeRec{}
	}
	vc.stores[st.heap[col]] = storeRec{prev, key, idx, val}
}

// readCol reads column version h at (key[, idx]) in read-over-write form.
func (vc *VC) readCol(h, key, idx Term, depth int) Term {
	if os.Getenv("CBV_NO_ROW") != "" {
		depth = 100
	}
	if rec, ok := vc.stores[h]; ok && depth < 8 && (rec.idx == "") == (idx == "") {
		rest := vc.readCol(rec.prev, key, idx, depth+1)
		if idx == "" {
			return mkIte(mkEq(key, rec.key), rec.val, rest)
		}
		return mkIte(mkAnd(mkEq(key, rec.key), mkEq(idx, rec.idx)), rec.val, rest)
	}
	if idx == "" {
		return mkSel(h, key)
	}
	return mkSel(mkSel(h, key), idx)
}

// LV is a statically resolved location: a set of leaf columns addressed by an
// object reference and, inside slices/arrays, an index.
type LV struct {
	Col    string // column root: struct type name, "[]Elem" or "*T"
	Path   string // leaf path prefix inside the root ("" or "config" ...)
	Ref    Term
	Idx    Term // valid when HasIdx
	HasIdx bool
	Typ    types.Type // type of the content at this location
	Elem   bool       // root is an element column (keyed by arr then index)
}

func (lv *LV) String() string {
	return fmt.Sprintf("LV{%s.%s ref=%s idx=%s %v}", lv.Col, lv.Path, lv.Ref, lv.Idx, lv.Typ)
}

func (e *Engine) elemCol(elem types.Type) string { return "[]" + e.typeName(elem) }

// rootLV interprets a pointer value p of static type *T as a location.
func (e *Engine) rootLV(p Term, T types.Type) *LV {
	if e.isOpaqueStruct(T) {
		return &LV{Col: "*" + e.typeName(T), Ref: p, Typ: T}
	}
	switch u := T.Underlying().(type) {
	case *types.Struct:
		name := e.typeName(T)
		if _, named := T.(*types.Named); !named {
			name = "struct" + fmt.Sprint(len(e.typeName(T)))
		}
		return &LV{Col: name, Ref: p, Typ: T}
	case *types.Array:
		// pointer to a free-standing array: elements live in the element column
		return &LV{Col: e.elemCol(u.Elem()), Ref: p, Typ: T, Elem: true}
	}
	return &LV{Col: "*" + e.typeName(T), Ref: p, Typ: T}
}

// colName / colSort of leaf l (relative to lv.Typ's shape) at location lv.
func (vc *VC) lvLeafCol(lv *LV, l Leaf) (string, Sort, bool) {
	path := joinPath(lv.Path, l.Path)
	name := lv.Col
	if path != "" {
		name += "." + path
	}
	// A leaf that lives inside an array: the column is keyed by ref and then by
	// index. Either the array is the root (Elem columns) or embedded in a struct.
	leafSort := l.Sort
	twoLevel := false
	if lv.Elem {
		// Elem root: content type is [N]E (whole array) or E (one element, HasIdx)
		if lv.HasIdx {
			twoLevel = true
			return name, arrOf(arrOf(leafSort)), twoLevel
		}
		// whole array: leaf sort is already an array sort (InArr); path has "[]" prefix to drop
		name = lv.Col
		p := strings.TrimPrefix(l.Path, "[]")
		p = strings.TrimPrefix(p, ".")
		p = joinPath(lv.Path, p)
		if p != "" {
			name += "." + p
		}
		return name, arrOf(leafSort), false
	}
	if lv.HasIdx {
		return name, arrOf(arrOf(leafSort)), true
	}
	return name, arrOf(leafSort), false
}

// refColumn: every reference stored in the pre-state heap is allocated in the
// pre-state (one quantified axiom per reference-valued column).
func (vc *VC) refColumn(col string, s Sort, l Leaf) {
	if l.Kind != LRef && l.Kind != LArr {
		return
	}
	if os.Getenv("CBV_NO_REFAX") != "" {
		return
	}
	if vc.refAx == nil {
		vc.refAx = map[string]bool{}
	}
	if vc.refAx[col] {
		return
	}
	vc.refAx[col] = true
	h := vc.colInit(col, s)
	switch s {
	case SArrInt:
		// only cells of objects allocated in the pre-state: the cells of objects
		// allocated later are where callee contracts describe fresh results
		vc.assertGlobal(fmt.Sprintf("(forall ((r Int)) (=> (< r alloc0) (and (<= 0 (select %s r)) (< (select %s r) alloc0))))", h, h))
	case SArr2Int:
		vc.assertGlobal(fmt.Sprintf("(forall ((r Int) (i Int)) (=> (< r alloc0) (and (<= 0 (select (select %s r) i)) (< (select (select %s r) i) alloc0))))", h, h))
	}
}

// load reads the content of lv from the heap of st.
func (vc *VC) load(st *State, lv *LV) SV {
	sh := vc.e.shape(lv.Typ)
	out := SV{Typ: lv.Typ}
	for _, l := range sh.Leaves {
		col, s, two := vc.lvLeafCol(lv, l)
		vc.refColumn(col, s, l)
		h := vc.colGet(st, col, s)
		var t Term
		if two {
			t = mkSel(mkSel(h, lv.Ref), lv.Idx)
		} else {
			t = mkSel(h, lv.Ref)
		}
		out.T = append(out.T, t)
	}
	return vc.wellFormedLoaded(st, out)
}

// wellFormedLoaded names the loaded leaves and attaches type facts to them.
func (vc *VC) wellFormedLoaded(st *State, v SV) SV {
	sh := vc.e.shape(v.Typ)
	for i, l := range sh.Leaves {
		if l.InArr {
			continue
		}
		v.T[i] = vc.define("ld", l.Sort, v.T[i])
	}
	// a fact about the heap on *this* path only: guarded, or it would make other
	// paths (where the cell may hold anything) contradictory
	vc.assert(mkImp(st.guard, vc.wf(v, st.alloc)))
	return v
}

// store writes v to lv.
func (vc *VC) store(st *State, lv *LV, v SV) {
	sh := vc.e.shape(lv.Typ)
	if len(sh.Leaves) != len(v.T) {
		panic(fmt.Sprintf("store: shape mismatch %v (%d leaves) <- %v (%d)", lv.Typ, len(sh.Leaves), v.Typ, len(v.T)))
	}
	for i, l := range sh.Leaves {
		col, s, two := vc.lvLeafCol(lv, l)
		h := vc.colGet(st, col, s)
		if two {
			vc.colSetStore(st, col, s, h, lv.Ref, lv.Idx, v.T[i])
		} else {
			vc.colSetStore(st, col, s, h, lv.Ref, "", v.T[i])
		}
	}
}

// leafCols lists the columns (name, sort) touched by a store to lv.
func (vc *VC) lvCols(lv *LV) []string {
	var out []string
	for _, l := range vc.e.shape(lv.Typ).Leaves {
		col, s, _ := vc.lvLeafCol(lv, l)
		vc.colInit(col, s)
		out = append(out, col)
	}
	return out
}

// ---------- value helpers ----------

func (vc *VC) zero(t types.Type) SV {
	sh := vc.e.shape(t)
	out := SV{Typ: t}
	for _, l := range sh.Leaves {
		out.T = append(out.T, zeroOfSort(l.Sort))
	}
	return out
}

// havoc returns an arbitrary well-formed value of type t.
func (vc *VC) havoc(t types.Type, hint string, alloc Term) SV {
	sh := vc.e.shape(t)
	out := SV{Typ: t}
	for _, l := range sh.Leaves {
		out.T = append(out.T, vc.fresh(hint+"_"+l.Path, l.Sort))
	}
	vc.assert(vc.wf(out, alloc))
	return out
}

const maxSliceLen = "72057594037927936" // 2^56: no Go slice is longer (address space)

// wf is the type invariant of a value: integer ranges, slice header sanity,
// references below the allocation frontier, sealed-interface tag sets.
func (vc *VC) wf(v SV, alloc Term) Term {
	sh := vc.e.shape(v.Typ)
	var cs []Term
	for i, l := range sh.Leaves {
		if l.InArr {
			continue
		}
		t := v.T[i]
		if isNum(t) {
			continue
		}
		switch l.Kind {
		case LInt:
			if lo, hi, ok := intRange(l.Typ); ok {
				cs = append(cs, mkLe(lo, t), mkLe(t, hi))
			}
		case LRef:
			cs = append(cs, mkLe("0", t))
			if alloc != "" {
				cs = append(cs, mkLt(t, alloc))
			}
		case LArr:
			arr, off, ln, cp := v.T[i], v.T[i+1], v.T[i+2], v.T[i+3]
			cs = append(cs, mkLe("0", arr), mkLe("0", off), mkLe("0", ln), mkLe(ln, cp), mkLe(cp, maxSliceLen), mkLe(off, maxSliceLen))
			if alloc != "" {
				cs = append(cs, mkLt(arr, alloc))
			}
			// nil slice: arr == 0 => len == cap == 0
			cs = append(cs, mkImp(mkEq(arr, "0"), mkAnd(mkEq(cp, "0"), mkEq(off, "0"))))
		case LTag:
			tag, val := v.T[i], v.T[i+1]
			cs = append(cs, mkLe("0", tag), mkImp(mkEq(tag, "0"), mkEq(val, "0")))
			if set := vc.e.sealedTags(l.Typ); set != nil {
				var alts []Term
				alts = append(alts, mkEq(tag, "0"))
				for _, id := range set {
					alts = append(alts, mkEq(tag, num(int64(id))))
				}
				cs = append(cs, mkOr(alts...))
			}
		}
	}
	return mkAnd(cs...)
}

// sealedTags: for an interface type with an unexported method declared in this
// package, only package types can implement it; returns their tags.
func (e *Engine) sealedTags(t types.Type) []int {
	it, ok := t.Underlying().(*types.Interface)
	if !ok {
		return nil
	}
	sealed := false
	for i := 0; i < it.NumMethods(); i++ {
		m := it.Method(i)
		if !m.Exported() && m.Pkg() == e.pkg.Types {
			sealed = true
		}
	}
	if !sealed {
		return nil
	}
	var out []int
	for _, impl := range e.implementers(it) {
		out = append(out, e.tagOf(impl))
	}
	sort.Ints(out)
	return out
}

// implementers lists the package's concrete types (T and *T) that implement it.
func (e *Engine) implementers(it *types.Interface) []types.Type {
	var out []types.Type
	scope := e.pkg.Types.Scope()
	for _, n := range scope.Names() {
		tn, ok := scope.Lookup(n).(*types.TypeName)
		if !ok || tn.IsAlias() {
			continue
		}
		T := tn.Type()
		if _, isIface := T.Underlying().(*types.Interface); isIface {
			continue
		}
		if nt, ok := T.(*types.Named); ok && nt.TypeParams().Len() > 0 {
			continue
		}
		if types.Implements(T, it) {
			out = append(out, T)
		}
		if pt := types.NewPointer(T); types.Implements(pt, it) {
			out = append(out, pt)
		}
	}
	return out
}

func svEq(a, b SV) Term {
	if len(a.T) != len(b.T) {
		panic(fmt.Sprintf("svEq: shape mismatch %v vs %v", a.Typ, b.Typ))
	}
	var cs []Term
	for i := range a.T {
		cs = append(cs, mkEq(a.T[i], b.T[i]))
	}
	return mkAnd(cs...)
}
