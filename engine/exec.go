package main

// Symbolic execution of one function activation over go/ssa in block-predicate
// form: every block has a guard; joins define phis/heap versions by implication;
// loops are cut at their headers.

import (
	"os"
	"fmt"
	"go/ast"
	"go/token"
	"go/types"
	"sort"
	"strings"

	"golang.org/x/tools/go/ssa"
)

type edgeIn struct {
	from *ssa.BasicBlock
	st   *State
}

type retInfo struct {
	st      *State
	results []SV
	ord     int
	pos     token.Pos
	blk     *ssa.BasicBlock
	instr   ssa.Instruction
	preSt   *State // state before the deferred calls ran (at-return clauses speak about it)
}

type loopInv struct {
	label string
	kind  string // "invariant" (declared) or "cand"
	cand  *Candidate
	// eval computes the invariant for a binding of the header's phis.
	eval func(bind map[*ssa.Phi]SV, st *State) Term
	src  string
}

type loopInfo struct {
	header   *ssa.BasicBlock
	ord      int
	body     map[*ssa.BasicBlock]bool
	invs     []*loopInv
	spec     *LoopSpec
	headSt   *State           // state at the head of an arbitrary iteration
	headBind map[*ssa.Phi]SV  // havocked phi values at the head
	entryEnv map[string]SV    // entry(x) bindings
	decrHead Term
}

type FnCtx struct {
	vc       *VC
	e        *Engine
	fn       *ssa.Function
	name     string
	contract *Contract
	isUnit   bool
	depth    int
	parent   *FnCtx

	vals     map[ssa.Value]SV
	lvs      map[ssa.Value]*LV
	closures map[ssa.Value]*ssa.MakeClosure
	freeBind map[*ssa.FreeVar]SV
	freeLV   map[*ssa.FreeVar]*LV

	rets     []retInfo
	entry    *State
	entryEnv map[string]SV // parameter (and ghost) values at entry
	ghostEnv map[string]SV

	loops    map[*ssa.BasicBlock]*loopInfo
	loopOrd  map[*ssa.BasicBlock]int
	order    []*ssa.BasicBlock
	callOrd  map[ssa.Instruction]int    // ordinal of a call among calls with the same target name
	callName map[ssa.Instruction]string // anchor name of a call
	retOrd   map[ssa.Instruction]int
	deferAt  map[*ssa.Defer]Term // guard under which the defer was registered
	dbg      map[string][]*ssa.DebugRef
	rangeMap map[*ssa.Range]types.Type
	timerCh  map[ssa.Value]Term // channel value loaded from (*time.Timer).C -> the timer
	loadedFrom map[ssa.Value]*LV // value -> the location it was loaded from

	// dry-run collection
	dryHeader *ssa.BasicBlock
	dryBack   []*State
	region    map[*ssa.BasicBlock]bool

	cells      map[string]SV // captured variables (closure units): name -> pointer to the variable
	ghostVars  map[string]GhostVar
	alias      map[string]string // contract name -> actual variable name (renamed variables)
	nPlainSends int // unit root only: plain sends met so far
	flatOrd    map[string]int   // root only: ordinal of every anchorable call, helpers that get inlined included
	flatLoop   map[string]int   // root only: ordinal of every loop, loops of inlined helpers included
	inlinePath []ssa.Instruction // for an inlined helper: the chain of call instructions that led here
	lastGhost  map[string]SV // ghost results of the most recent contracted call
	preDefer   *State
	modTargets []modTarget // evaluated modifies clause (unit only)
	modAll     bool
}

func (fc *FnCtx) cloneForDry() *FnCtx {
	c := *fc
	c.vals = make(map[ssa.Value]SV, len(fc.vals))
	for k, v := range fc.vals {
		c.vals[k] = v
	}
	c.lvs = make(map[ssa.Value]*LV, len(fc.lvs))
	for k, v := range fc.lvs {
		c.lvs[k] = v
	}
	c.closures = make(map[ssa.Value]*ssa.MakeClosure, len(fc.closures))
	for k, v := range fc.closures {
		c.closures[k] = v
	}
	c.deferAt = make(map[*ssa.Defer]Term, len(fc.deferAt))
	for k, v := range fc.deferAt {
		c.deferAt[k] = v
	}
	c.loops = make(map[*ssa.BasicBlock]*loopInfo, len(fc.loops))
	for k, v := range fc.loops {
		c.loops[k] = v
	}
	c.rets = nil
	c.dryBack = nil
	return &c
}

func newFnCtx(vc *VC, fn *ssa.Function, parent *FnCtx) *FnCtx {
	fc := &FnCtx{vc: vc, e: vc.e, fn: fn, name: vc.e.shortName(fn), parent: parent,
		vals: map[ssa.Value]SV{}, lvs: map[ssa.Value]*LV{}, closures: map[ssa.Value]*ssa.MakeClosure{},
		freeBind: map[*ssa.FreeVar]SV{}, freeLV: map[*ssa.FreeVar]*LV{},
		loops: map[*ssa.BasicBlock]*loopInfo{}, loopOrd: map[*ssa.BasicBlock]int{},
		callOrd: map[ssa.Instruction]int{}, callName: map[ssa.Instruction]string{}, retOrd: map[ssa.Instruction]int{},
		deferAt: map[*ssa.Defer]Term{}, dbg: map[string][]*ssa.DebugRef{},
		entryEnv: map[string]SV{}, ghostEnv: map[string]SV{}, ghostVars: map[string]GhostVar{}, cells: map[string]SV{}, timerCh: map[ssa.Value]Term{}, loadedFrom: map[ssa.Value]*LV{}, rangeMap: map[*ssa.Range]types.Type{}}
	if parent != nil {
		fc.depth = parent.depth + 1
	}
	fc.contract = vc.e.spec.Contracts[fc.name]
	fc.analyze()
	if parent == nil && fc.contract != nil {
		var notes []string
		fc.alias, notes = vc.e.aliases(fn, fc.contract)
		for _, n := range notes {
			vc.note("renamed variable in " + fc.name + ": " + n)
		}
	}
	return fc
}

// analyze computes block order, loop headers/bodies, call ordinals, debug names.
func (fc *FnCtx) analyze() {
	fn := fc.fn
	// reverse postorder ignoring back edges
	seen := map[*ssa.BasicBlock]bool{}
	var post []*ssa.BasicBlock
	var dfs func(b *ssa.BasicBlock)
	dfs = func(b *ssa.BasicBlock) {
		seen[b] = true
		for _, s := range b.Succs {
			if !seen[s] && !s.Dominates(b) {
				dfs(s)
			}
		}
		post = append(post, b)
	}
	if len(fn.Blocks) > 0 {
		dfs(fn.Blocks[0])
	}
	for i := len(post) - 1; i >= 0; i-- {
		fc.order = append(fc.order, post[i])
	}
	// loops
	var headers []*ssa.BasicBlock
	for _, b := range fn.Blocks {
		for _, p := range b.Preds {
			if b.Dominates(p) {
				if _, ok := fc.loopOrd[b]; !ok {
					fc.loopOrd[b] = 0
					headers = append(headers, b)
				}
			}
		}
	}
	sort.Slice(headers, func(i, j int) bool { return headers[i].Index < headers[j].Index })
	for i, h := range headers {
		fc.loopOrd[h] = i
	}
	// call ordinals by anchor name in source order
	type ci struct {
		in  ssa.Instruction
		pos token.Pos
		idx int
	}
	byName := map[string][]ci{}
	var rets []ci
	k := 0
	// variable names first: they are used to name call targets
	for _, b := range fn.Blocks {
		for _, in := range b.Instrs {
			if x, ok := in.(*ssa.DebugRef); ok && !x.IsAddr {
				if name := debugName(x); name != "" {
					fc.dbg[name] = append(fc.dbg[name], x)
				}
			}
		}
	}
	for _, b := range fn.Blocks {
		for _, in := range b.Instrs {
			k++
			switch x := in.(type) {
			case ssa.CallInstruction:
				n := fc.anchorName(x.Common())
				fc.callName[in] = n
				byName[n] = append(byName[n], ci{in, in.Pos(), k})
			case *ssa.Return:
				if b == fn.Recover {
					continue // the recover block's return is not a source-level return
				}
				rets = append(rets, ci{in, in.Pos(), k})
			}
		}
	}
	less := func(a, b ci) bool {
		if a.pos != b.pos && a.pos.IsValid() && b.pos.IsValid() {
			return a.pos < b.pos
		}
		return a.idx < b.idx
	}
	for _, l := range byName {
		sort.Slice(l, func(i, j int) bool { return less(l[i], l[j]) })
		for i, c := range l {
			fc.callOrd[c.in] = i
		}
	}
	sort.Slice(rets, func(i, j int) bool { return less(rets[i], rets[j]) })
	for i, c := range rets {
		fc.retOrd[c.in] = i
	}
}

func debugName(x *ssa.DebugRef) string {
	if obj := x.Object(); obj != nil {
		if _, isVar := obj.(*types.Var); isVar {
			return obj.Name()
		}
	}
	return ""
}

// anchorName is the name used to address a call site in "at call NAME#k".
func (fc *FnCtx) anchorName(c *ssa.CallCommon) string {
	if c.IsInvoke() {
		return c.Method.Name()
	}
	switch v := c.Value.(type) {
	case *ssa.Builtin:
		return v.Name()
	case *ssa.Function:
		n := v.Name()
		if k := strings.Index(n, "["); k >= 0 {
			n = n[:k]
		}
		return n
	case *ssa.MakeClosure:
		return v.Fn.Name()
	}
	return fc.valueSourceName(c.Value)
}

// valueSourceName gives a source-level name for a func-typed value: the field
// it was loaded from, or the parameter / captured variable name.
func (fc *FnCtx) valueSourceName(v ssa.Value) string {
	if _, isCall := v.(*ssa.Call); isCall {
		// a call result bound to a local variable: use the variable's name
		for name, refs := range fc.dbg {
			for _, r := range refs {
				if r.X == v {
					if _, isVar := r.Object().(*types.Var); isVar {
						if id, ok := r.Expr.(*ast.Ident); ok && id.Name == name {
							return name
						}
					}
				}
			}
		}
	}
	switch x := v.(type) {
	case *ssa.Parameter:
		return x.Name()
	case *ssa.FreeVar:
		return x.Name()
	case *ssa.UnOp:
		if x.Op == token.MUL {
			return fc.valueSourceName(x.X)
		}
	case *ssa.FieldAddr:
		st := pointee(x.X.Type()).Underlying().(*types.Struct)
		return st.Field(x.Field).Name()
	case *ssa.Field:
		st := x.X.Type().Underlying().(*types.Struct)
		return st.Field(x.Field).Name()
	case *ssa.Phi:
		return x.Comment
	case *ssa.Alloc:
		return x.Comment
	case *ssa.Extract:
		return fmt.Sprintf("%s#%d", fc.valueSourceName(x.Tuple), x.Index)
	case *ssa.Call:
		return fc.anchorName(x.Common()) + "()"
	}
	return v.Name()
}

func isBackEdge(from, to *ssa.BasicBlock) bool { return to.Dominates(from) }

func (fc *FnCtx) loopBody(h *ssa.BasicBlock) map[*ssa.BasicBlock]bool {
	body := map[*ssa.BasicBlock]bool{h: true}
	var stack []*ssa.BasicBlock
	for _, p := range h.Preds {
		if isBackEdge(p, h) && !body[p] {
			body[p] = true
			stack = append(stack, p)
		}
	}
	for len(stack) > 0 {
		b := stack[len(stack)-1]
		stack = stack[:len(stack)-1]
		for _, p := range b.Preds {
			if !body[p] {
				body[p] = true
				stack = append(stack, p)
			}
		}
	}
	return body
}

// run executes the blocks in `region` (nil = whole function) starting from
// `start` with in-state `in`.
func (fc *FnCtx) run(start *ssa.BasicBlock, in *State, region map[*ssa.BasicBlock]bool, headerPreBound bool) {
	edges := map[*ssa.BasicBlock][]edgeIn{}
	edges[start] = []edgeIn{{nil, in}}
	for _, b := range fc.order {
		if region != nil && !region[b] {
			continue
		}
		ins := edges[b]
		if len(ins) == 0 {
			continue
		}
		var st *State
		if b == start && headerPreBound {
			st = in // phis already bound by the caller (loop dry run / body run)
		} else {
			st = fc.join(b, ins)
			if _, isHeader := fc.loopOrd[b]; isHeader {
				st = fc.cutLoop(b, st)
			}
		}
		if st.dead {
			continue
		}
		outs := fc.execBlock(b, st)
		for _, o := range outs {
			if o.st.dead || o.st.guard == "false" {
				continue
			}
			if isBackEdge(b, o.to) {
				fc.backEdge(b, o.to, o.st)
				continue
			}
			if region != nil && !region[o.to] {
				continue
			}
			edges[o.to] = append(edges[o.to], edgeIn{b, o.st})
		}
	}
}

type edgeOut struct {
	to *ssa.BasicBlock
	st *State
}

func predIndex(b, from *ssa.BasicBlock, nth int) int {
	k := 0
	for i, p := range b.Preds {
		if p == from {
			if k == nth {
				return i
			}
			k++
		}
	}
	return -1
}

// joinStates merges states (no phis); returns a state whose guard is the
// disjunction of the inputs.
func (vc *VC) joinStates(sts []*State, hint string) *State {
	var live []*State
	for _, s := range sts {
		if s != nil && !s.dead && s.guard != "false" {
			live = append(live, s)
		}
	}
	if len(live) == 0 {
		return &State{guard: "false", heap: map[string]Term{}, alloc: "alloc0", dead: true}
	}
	if len(live) == 1 {
		return live[0].clone()
	}
	var gs []Term
	for _, s := range live {
		gs = append(gs, s.guard)
	}
	out := &State{heap: map[string]Term{}}
	out.guard = vc.define("g_"+hint, SBool, mkOr(gs...))
	// alloc
	same := true
	for _, s := range live[1:] {
		if s.alloc != live[0].alloc {
			same = false
		}
	}
	if same {
		out.alloc = live[0].alloc
	} else {
		out.alloc = vc.fresh("alloc", SInt)
		for _, s := range live {
			vc.assertDef(out.alloc, mkImp(s.guard, mkEq(out.alloc, s.alloc)))
		}
	}
	cols := map[string]bool{}
	for _, s := range live {
		for c := range s.heap {
			cols[c] = true
		}
	}
	var names []string
	for c := range cols {
		names = append(names, c)
	}
	sort.Strings(names)
	for _, c := range names {
		srt := vc.cols[c]
		first := vc.colGet(live[0], c, srt)
		same := true
		for _, s := range live[1:] {
			if vc.colGet(s, c, srt) != first {
				same = false
			}
		}
		if same {
			out.heap[c] = first
			continue
		}
		nv := vc.fresh("H_"+c, srt)
		for _, s := range live {
			vc.assertDef(nv, mkImp(s.guard, mkEq(nv, vc.colGet(s, c, srt))))
		}
		out.heap[c] = nv
	}
	return out
}

// join merges the incoming edges of b and binds b's phis.
func (fc *FnCtx) join(b *ssa.BasicBlock, ins []edgeIn) *State {
	var sts []*State
	for _, in := range ins {
		sts = append(sts, in.st)
	}
	st := fc.vc.joinStates(sts, fmt.Sprintf("b%d", b.Index))
	// phis
	cnt := map[*ssa.BasicBlock]int{}
	type inc struct {
		guard Term
		idx   int
	}
	var incs []inc
	for _, in := range ins {
		if in.from == nil {
			continue
		}
		pi := predIndex(b, in.from, cnt[in.from])
		cnt[in.from]++
		incs = append(incs, inc{in.st.guard, pi})
	}
	for _, instr := range b.Instrs {
		phi, ok := instr.(*ssa.Phi)
		if !ok {
			break
		}
		if len(incs) == 0 {
			continue
		}
		if len(incs) == 1 {
			fc.vals[phi] = fc.val(phi.Edges[incs[0].idx])
			continue
		}
		sh := fc.e.shape(phi.Type())
		nv := SV{Typ: phi.Type()}
		for _, l := range sh.Leaves {
			nv.T = append(nv.T, fc.vc.fresh("phi_"+phi.Comment+"_"+l.Path, l.Sort))
		}
		for _, ic := range incs {
			src := fc.val(phi.Edges[ic.idx])
			fc.vc.defEq(ic.guard, nv, fc.coerce(src, phi.Type()))
		}
		fc.vals[phi] = nv
	}
	return st
}

// coerce adapts a value to a type with the same shape (nil constants).
func (fc *FnCtx) coerce(v SV, t types.Type) SV {
	want := len(fc.e.shape(t).Leaves)
	if len(v.T) == want {
		return SV{Typ: t, T: v.T}
	}
	if len(v.T) == 1 && v.T[0] == "0" {
		return fc.vc.zero(t)
	}
	panic(fmt.Sprintf("coerce: %v (%d leaves) to %v (%d leaves) in %s", v.Typ, len(v.T), t, want, fc.name))
}

// ---------- loops ----------

func (fc *FnCtx) headerPhis(h *ssa.BasicBlock) []*ssa.Phi {
	var out []*ssa.Phi
	for _, in := range h.Instrs {
		if p, ok := in.(*ssa.Phi); ok {
			out = append(out, p)
		} else {
			break
		}
	}
	return out
}

func (fc *FnCtx) cutLoop(h *ssa.BasicBlock, st *State) *State {
	vc := fc.vc
	phis := fc.headerPhis(h)
	entryBind := map[*ssa.Phi]SV{}
	for _, p := range phis {
		entryBind[p] = fc.vals[p]
	}
	body := fc.loopBody(h)
	if fc.region != nil {
		for b := range body {
			if !fc.region[b] {
				delete(body, b)
			}
		}
	}
	li := &loopInfo{header: h, ord: fc.loopOrd[h], body: body}
	if fc.contract != nil && fc.parent != nil {
		li.spec = fc.contract.Loops[li.ord]
	} else if fc.contract != nil {
		li.spec = fc.contract.Loops[fc.flatLoopOrdOf(h)]
	} else if root := fc.unitCtx(); root != fc && root.contract != nil && len(fc.inlinePath) > 0 && len(root.contract.Loops) > 0 {
		// a loop inside an uncontracted helper inlined into the unit: `loop#k` of the
		// unit's contract counts it where the helper is called
		li.spec = root.contract.Loops[fc.flatLoopOrdOf(h)]
		if li.spec != nil && os.Getenv("CBV_DEBUG_FLAT") != "" {
			fmt.Fprintf(os.Stderr, "FLAT: loop of inlined %s takes loop#%d of %s\n", fc.name, fc.flatLoopOrdOf(h), root.name)
		}
	}

	// 1. dry run: which heap columns can an iteration modify?
	mod := fc.dryRunLoop(h, st, body, phis)

	// 2. invariants: declared + candidates
	li.invs = fc.loopInvariants(li, phis, entryBind, st)
	loopName := fmt.Sprintf("loop#%d", li.ord)
	for _, inv := range li.invs {
		goal := inv.eval(entryBind, st)
		if inv.kind == "cand" {
			o := vc.oblige(st, "cand", "", fmt.Sprintf("%s entry %s", loopName, inv.src), fc.e.pos(h.Instrs[0].Pos()), goal)
			o.Cand = inv.cand.ID
		} else {
			vc.oblige(st, "invariant", inv.label, fmt.Sprintf("%s entry:%s", loopName, inv.label), fc.e.pos(h.Instrs[0].Pos()), goal)
		}
	}

	// 3. head of an arbitrary iteration
	hs := st.clone()
	hs.alloc = vc.fresh("alloc", SInt)
	vc.assert(mkLe(st.alloc, hs.alloc))
	for _, c := range mod {
		hs.heap[c] = vc.fresh("H_"+c, vc.cols[c])
	}
	bind := map[*ssa.Phi]SV{}
	for _, p := range phis {
		hv := vc.havoc(p.Type(), "loop_"+p.Comment, hs.alloc)
		bind[p] = hv
		fc.vals[p] = hv
	}
	for _, inv := range li.invs {
		t := inv.eval(bind, hs)
		if inv.kind == "cand" {
			vc.assert(mkImp(mkAnd(hs.guard, inv.cand.Flag), t))
		} else {
			vc.assume(hs, t)
			if vc.invAssume == nil {
				vc.invAssume = map[int]string{}
			}
			vc.invAssume[len(vc.asserts)-1] = inv.label
		}
	}
	li.headSt = hs
	li.headBind = bind
	if li.spec != nil && li.spec.Decreases != nil {
		env := fc.loopEnv(li, bind, hs)
		li.decrHead = env.evalInt(li.spec.Decreases.E)
	}
	fc.loops[h] = li
	return hs
}

// dryRunLoop executes the loop body once on a throw-away copy and returns the
// heap columns whose version changed anywhere before a back edge.
func (fc *FnCtx) dryRunLoop(h *ssa.BasicBlock, st *State, body map[*ssa.BasicBlock]bool, phis []*ssa.Phi) []string {
	vc := fc.vc
	snapDecls, snapAsserts, snapObligs, snapCands, snapN := len(vc.decls), len(vc.asserts), len(vc.obligs), len(vc.cands), vc.n
	snapAdef := len(vc.adef)
	snapNames := map[string]int{}
	for k, v := range vc.names {
		snapNames[k] = v
	}
	snapColDecl := map[string]bool{}
	for k, v := range vc.colDecl {
		snapColDecl[k] = v
	}
	snapUF := map[string]bool{}
	for k, v := range vc.ufDecl {
		snapUF[k] = v
	}
	snapRefAx := map[string]bool{}
	for k, v := range vc.refAx {
		snapRefAx[k] = v
	}
	snapStores := map[Term]storeRec{}
	for k, v := range vc.stores {
		snapStores[k] = v
	}
	vc.dry++
	d := fc.cloneForDry()
	d.dryHeader = h
	d.region = body
	ds := st.clone()
	for _, p := range phis {
		d.vals[p] = vc.havoc(p.Type(), "dry_"+p.Comment, ds.alloc)
	}
	// mark the header as "already cut" so that run() does not cut it again
	d.run(h, ds, body, true)
	changed := map[string]bool{}
	for _, bs := range d.dryBack {
		for c, v := range bs.heap {
			if st.heap[c] != v {
				changed[c] = true
			}
		}
	}
	vc.dry--
	// column sorts discovered during the dry run stay registered (cols map), but
	// declarations are rolled back together with everything else.
	vc.decls, vc.asserts, vc.obligs, vc.cands, vc.n = vc.decls[:snapDecls], vc.asserts[:snapAsserts], vc.obligs[:snapObligs], vc.cands[:snapCands], snapN
	vc.adef = vc.adef[:snapAdef]
	vc.aglobal = vc.aglobal[:snapAdef]
	vc.names = snapNames
	vc.stores = snapStores
	vc.refAx = snapRefAx
	vc.colDecl = snapColDecl
	vc.ufDecl = snapUF
	var out []string
	for c := range changed {
		out = append(out, c)
		// make sure the column is declared in the real run
		vc.colInit(c, vc.cols[c])
	}
	sort.Strings(out)
	return out
}

func (fc *FnCtx) backEdge(from, h *ssa.BasicBlock, st *State) {
	if fc.dryHeader == h {
		fc.dryBack = append(fc.dryBack, st)
		return
	}
	li := fc.loops[h]
	if li == nil {
		// back edge into a header of an enclosing dry run or unknown loop
		return
	}
	vc := fc.vc
	phis := fc.headerPhis(h)
	bind := map[*ssa.Phi]SV{}
	cnt := 0
	for i, p := range h.Preds {
		if p == from {
			cnt = i
			break
		}
	}
	for _, p := range phis {
		bind[p] = fc.coerce(fc.val(p.Edges[cnt]), p.Type())
	}
	loopName := fmt.Sprintf("loop#%d", li.ord)
	pos := fc.e.pos(h.Instrs[0].Pos())
	for _, inv := range li.invs {
		goal := inv.eval(bind, st)
		if inv.kind == "cand" {
			o := vc.oblige(st, "cand", "", fmt.Sprintf("%s step %s", loopName, inv.src), pos, goal)
			o.Cand = inv.cand.ID
		} else {
			vc.oblige(st, "invariant", inv.label, fmt.Sprintf("%s step:%s", loopName, inv.label), pos, goal)
		}
	}
	if li.spec != nil {
		if li.spec.Decreases != nil {
			env := fc.loopEnv(li, bind, st)
			now := env.evalInt(li.spec.Decreases.E)
			vc.oblige(st, "decreases", "", loopName, pos, mkAnd(mkLe("0", li.decrHead), mkLt(now, li.decrHead)))
		}
		for _, s := range li.spec.Steps {
			env := fc.loopEnv(li, bind, st)
			env.entryVars = map[string]SV{}
			for p, v := range li.headBind {
				env.entryVars[p.Comment] = v
			}
			env.entrySt = li.headSt
			vc.oblige(st, "step", s.Label, fmt.Sprintf("%s:%s", loopName, s.Label), pos, env.evalBool(s.E))
		}
	}
}

// loopEnv builds a spec environment in which the loop-carried variables are
// bound according to `bind`.
func (fc *FnCtx) loopEnv(li *loopInfo, bind map[*ssa.Phi]SV, st *State) *Env {
	env := fc.env(st, li.header)
	for p, v := range bind {
		if p.Comment != "" {
			env.vars[p.Comment] = v
		}
	}
	return env
}

func (fc *FnCtx) loopInvariants(li *loopInfo, phis []*ssa.Phi, entryBind map[*ssa.Phi]SV, st *State) []*loopInv {
	var out []*loopInv
	if li.spec != nil {
		for _, c := range li.spec.Invariants {
			c := c
			label := c.Label
			if label == "" {
				label = fmt.Sprintf("inv%d", len(out))
			}
			out = append(out, &loopInv{label: label, kind: "invariant", src: c.Src,
				eval: func(bind map[*ssa.Phi]SV, s *State) Term {
					return fc.loopEnv(li, bind, s).evalBool(c.E)
				}})
		}
	}
	add := func(desc string, f func(bind map[*ssa.Phi]SV, s *State) Term) {
		c := &Candidate{ID: len(fc.vc.cands), Desc: desc, Loop: fmt.Sprintf("%s loop#%d", fc.name, li.ord)}
		c.Flag = fmt.Sprintf("cand!%d", c.ID)
		fc.vc.declare(c.Flag, SBool)
		fc.vc.cands = append(fc.vc.cands, c)
		out = append(out, &loopInv{kind: "cand", cand: c, src: desc, eval: f})
	}
	consts := fc.smallConsts()
	for _, p := range phis {
		p := p
		name := p.Comment
		if name == "" {
			name = p.Name()
		}
		ev := entryBind[p]
		switch {
		case isSlice(p.Type()):
			add(name+".arr==entry", func(b map[*ssa.Phi]SV, s *State) Term { return mkEq(b[p].arr(), ev.arr()) })
			add(name+".end==entry", func(b map[*ssa.Phi]SV, s *State) Term {
				return mkEq(mkAdd(b[p].off(), b[p].ln()), mkAdd(ev.off(), ev.ln()))
			})
			add(name+".capend==entry", func(b map[*ssa.Phi]SV, s *State) Term {
				return mkEq(mkAdd(b[p].off(), b[p].cp()), mkAdd(ev.off(), ev.cp()))
			})
			add(name+".off>=entry", func(b map[*ssa.Phi]SV, s *State) Term { return mkLe(ev.off(), b[p].off()) })
			for _, k := range consts {
				k := k
				if k < 2 || k > 64 {
					continue
				}
				add(fmt.Sprintf("len(%s)%%%d==0", name, k), func(b map[*ssa.Phi]SV, s *State) Term {
					return mkEq(mkMod(b[p].ln(), num(k)), "0")
				})
			}
		case fc.e.shape(p.Type()).Leaves[0].Kind == LInt && len(fc.e.shape(p.Type()).Leaves) == 1:
			if isNum(ev.one()) {
				lo := ev.one()
				add(fmt.Sprintf("%s>=%s", name, lo), func(b map[*ssa.Phi]SV, s *State) Term { return mkLe(lo, b[p].one()) })
			}
			// upper bounds from comparisons against loop-invariant values
			for _, bound := range fc.phiBounds(li, p) {
				bound := bound
				add(fmt.Sprintf("%s<=%s", name, bound.desc), func(b map[*ssa.Phi]SV, s *State) Term {
					return mkLe(b[p].one(), bound.term)
				})
				if bound.add != "" && bound.add != "0" {
					add(fmt.Sprintf("%s+%s<=%s", name, bound.add, bound.desc), func(b map[*ssa.Phi]SV, s *State) Term {
						return mkLe(mkAdd(b[p].one(), bound.add), bound.term)
					})
				}
			}
		}
	}
	return out
}

type phiBound struct {
	desc string
	term Term
	add  Term // constant added to the phi in the comparison (phi + add < bound)
}

// phiBounds finds `phi < w` / `phi+1 < w` style comparisons in the loop whose
// other side is defined outside the loop.
func (fc *FnCtx) phiBounds(li *loopInfo, p *ssa.Phi) []phiBound {
	var out []phiBound
	outside := func(v ssa.Value) bool {
		switch x := v.(type) {
		case *ssa.Const:
			return true
		case *ssa.Parameter, *ssa.FreeVar:
			return true
		case ssa.Instruction:
			return !li.body[x.Block()]
		}
		return false
	}
	derived := func(v ssa.Value) (bool, Term) {
		if v == p {
			return true, "0"
		}
		if b, ok := v.(*ssa.BinOp); ok && b.Op == token.ADD {
			if b.X == p {
				if c, isC := b.Y.(*ssa.Const); isC {
					return true, fc.constVal(c).one()
				}
			}
		}
		return false, ""
	}
	for b := range li.body {
		for _, in := range b.Instrs {
			cmp, ok := in.(*ssa.BinOp)
			if !ok {
				continue
			}
			if d, addc := derived(cmp.X); (cmp.Op == token.LSS || cmp.Op == token.LEQ) && d && outside(cmp.Y) {
				if _, have := fc.vals[cmp.Y]; have || isConst(cmp.Y) {
					out = append(out, phiBound{fc.valueSourceName(cmp.Y), fc.val(cmp.Y).one(), addc})
				}
			}
		}
	}
	sort.Slice(out, func(i, j int) bool { return out[i].desc < out[j].desc })
	return out
}

func isConst(v ssa.Value) bool { _, ok := v.(*ssa.Const); return ok }

// smallConsts lists the small positive integer constants occurring in fc.fn.
func (fc *FnCtx) smallConsts() []int64 {
	set := map[int64]bool{}
	for _, b := range fc.fn.Blocks {
		for _, in := range b.Instrs {
			for _, op := range in.Operands(nil) {
				if c, ok := (*op).(*ssa.Const); ok && c.Value != nil {
					if bt, ok := c.Type().Underlying().(*types.Basic); ok && bt.Info()&types.IsInteger != 0 {
						v := c.Int64()
						if v >= 2 && v <= 64 {
							set[v] = true
						}
					}
				}
			}
		}
	}
	var out []int64
	for k := range set {
		out = append(out, k)
	}
	sort.Slice(out, func(i, j int) bool { return out[i] < out[j] })
	return out
}

// ---- anchors through inlined helpers ----
//
// `at call NAME#k` counts the calls named NAME in source order. A call that sits in
// an uncontracted helper is counted where the helper is called, as if the helper's
// body stood there, so that extracting a few lines into a helper (or inlining a
// tiny helper) does not renumber anything.

func pathKey(path []ssa.Instruction, in ssa.Instruction) string {
	var sb strings.Builder
	for _, p := range path {
		fmt.Fprintf(&sb, "%p/", p)
	}
	fmt.Fprintf(&sb, "%p", in)
	return sb.String()
}

// sortedCalls: the call instructions of the function in source order.
func (fc *FnCtx) sortedCalls() []ssa.Instruction {
	type ci struct {
		in  ssa.Instruction
		pos token.Pos
		idx int
	}
	var l []ci
	k := 0
	for _, b := range fc.fn.Blocks {
		for _, in := range b.Instrs {
			k++
			if _, ok := in.(ssa.CallInstruction); ok {
				l = append(l, ci{in, in.Pos(), k})
			}
		}
	}
	sort.SliceStable(l, func(i, j int) bool {
		a, b := l[i], l[j]
		if a.pos != b.pos && a.pos.IsValid() && b.pos.IsValid() {
			return a.pos < b.pos
		}
		return a.idx < b.idx
	})
	out := make([]ssa.Instruction, len(l))
	for i, c := range l {
		out[i] = c.in
	}
	return out
}

func (fc *FnCtx) inlinable(c *ssa.CallCommon) *ssa.Function {
	if c.IsInvoke() {
		return nil
	}
	callee, ok := c.Value.(*ssa.Function)
	if !ok {
		return nil
	}
	e := fc.e
	if callee.Origin() != nil {
		callee = callee.Origin()
	}
	if callee.Pkg != e.spkg || callee.Blocks == nil {
		return nil
	}
	name := e.shortName(callee)
	if _, known := e.funcs[name]; !known {
		return nil
	}
	if ct := e.spec.Contracts[name]; ct != nil {
		// a callee with a contract of its own (even one that only annotates its loops
		// or call sites) numbers its loops and calls itself
		return nil
	}
	return callee
}

func (fc *FnCtx) buildFlatOrd() {
	fc.flatOrd = map[string]int{}
	counts := map[string]int{}
	var walk func(c *FnCtx, path []ssa.Instruction, depth int, stack []*ssa.Function)
	walk = func(c *FnCtx, path []ssa.Instruction, depth int, stack []*ssa.Function) {
		for _, in := range c.sortedCalls() {
			name := c.callName[in]
			fc.flatOrd[pathKey(path, in)] = counts[name]
			counts[name]++
			if _, isGo := in.(*ssa.Go); isGo {
				continue
			}
			callee := c.inlinable(in.(ssa.CallInstruction).Common())
			if callee == nil || depth >= maxInlineDepth {
				continue
			}
			rec := false
			for _, s := range stack {
				if s == callee {
					rec = true
				}
			}
			if rec {
				continue
			}
			sub := newFnCtx(fc.vc, callee, c)
			walk(sub, append(append([]ssa.Instruction{}, path...), in), depth+1, append(stack, callee))
		}
	}
	walk(fc, nil, 0, []*ssa.Function{fc.fn})
}

// ordOf: the ordinal used by at-call anchors for this call instruction.
func (fc *FnCtx) ordOf(instr ssa.Instruction) int {
	root := fc.unitCtx()
	if root.contract == nil {
		return fc.callOrd[instr]
	}
	if root.flatOrd == nil {
		root.buildFlatOrd()
	}
	if o, ok := root.flatOrd[pathKey(fc.inlinePath, instr)]; ok {
		return o
	}
	if fc != root && fc.contract == nil {
		return -2 // inside a helper the flat numbering does not know: matches no anchor
	}
	return fc.callOrd[instr]
}

// ---- loop ordinals through inlined helpers ----

func loopKey(path []ssa.Instruction, h *ssa.BasicBlock) string {
	var sb strings.Builder
	for _, p := range path {
		fmt.Fprintf(&sb, "%p/", p)
	}
	fmt.Fprintf(&sb, "%p", h)
	return sb.String()
}

func blockPos(b *ssa.BasicBlock) token.Pos {
	best := token.NoPos
	for _, in := range b.Instrs {
		if p := in.Pos(); p.IsValid() && (!best.IsValid() || p < best) {
			best = p
		}
	}
	return best
}

func (fc *FnCtx) buildFlatLoop() {
	fc.flatLoop = map[string]int{}
	n := 0
	var walk func(c *FnCtx, path []ssa.Instruction, depth int, stack []*ssa.Function)
	walk = func(c *FnCtx, path []ssa.Instruction, depth int, stack []*ssa.Function) {
		type ev struct {
			pos  token.Pos
			idx  int
			h    *ssa.BasicBlock
			call ssa.Instruction
		}
		var evs []ev
		var hs []*ssa.BasicBlock
		for h := range c.loopOrd {
			hs = append(hs, h)
		}
		sort.Slice(hs, func(i, j int) bool { return c.loopOrd[hs[i]] < c.loopOrd[hs[j]] })
		// loops keep their own relative order (block index); their position is that of
		// the first positioned instruction of the header or, failing that, of the body
		lastPos := token.NoPos
		for _, h := range hs {
			p := blockPos(h)
			if !p.IsValid() {
				for _, su := range h.Succs {
					if q := blockPos(su); q.IsValid() && (!p.IsValid() || q < p) {
						p = q
					}
				}
			}
			if lastPos.IsValid() && (!p.IsValid() || p < lastPos) {
				p = lastPos
			}
			lastPos = p
			evs = append(evs, ev{pos: p, idx: c.loopOrd[h], h: h})
		}
		hasSpecLoops := false
		for _, in := range c.sortedCalls() {
			if _, isGo := in.(*ssa.Go); isGo {
				continue
			}
			callee := c.inlinable(in.(ssa.CallInstruction).Common())
			if callee == nil || depth >= maxInlineDepth {
				continue
			}
			rec := false
			for _, st := range stack {
				if st == callee {
					rec = true
				}
			}
			if rec {
				continue
			}
			evs = append(evs, ev{pos: in.Pos(), idx: 1 << 20, call: in})
			hasSpecLoops = true
		}
		_ = hasSpecLoops
		sort.SliceStable(evs, func(i, j int) bool {
			a, b := evs[i], evs[j]
			if a.h != nil && b.h != nil {
				return a.idx < b.idx
			}
			if a.pos != b.pos {
				return a.pos < b.pos
			}
			return a.idx < b.idx
		})
		for _, e := range evs {
			if e.h != nil {
				fc.flatLoop[loopKey(path, e.h)] = n
				n++
				continue
			}
			callee := c.inlinable(e.call.(ssa.CallInstruction).Common())
			sub := newFnCtx(fc.vc, callee, c)
			if len(sub.loopOrd) == 0 && !hasCalls(callee) {
				continue
			}
			walk(sub, append(append([]ssa.Instruction{}, path...), e.call), depth+1, append(stack, callee))
		}
	}
	walk(fc, nil, 0, []*ssa.Function{fc.fn})
}

func hasCalls(fn *ssa.Function) bool {
	for _, b := range fn.Blocks {
		for _, in := range b.Instrs {
			if _, ok := in.(ssa.CallInstruction); ok {
				return true
			}
		}
	}
	return false
}

func (fc *FnCtx) flatLoopOrdOf(h *ssa.BasicBlock) int {
	root := fc.unitCtx()
	if root.contract == nil {
		return fc.loopOrd[h]
	}
	if root.flatLoop == nil {
		root.buildFlatLoop()
	}
	if o, ok := root.flatLoop[loopKey(fc.inlinePath, h)]; ok {
		return o
	}
	if fc != root {
		return -1 // a helper the flat numbering does not know (closure values): no declared loop applies
	}
	return fc.loopOrd[h]
}
