package main

// Hypothesis slicing: for one obligation keep only the definitions of relevant
// symbols and the assumptions that mention a relevant symbol (cone of
// influence). Dropping hypotheses is sound for proving; anything not proved on
// the slice is re-checked against the full hypothesis set.

import (
	"strings"
)

type slicer struct {
	vc    *VC
	decl  map[string]bool
	syms  [][]string // per assert: declared symbols occurring in it
	trig  [][]string // per assert: symbols that make an assumption relevant
	byDef map[string][]int
	bySym map[string][]int // assumption indices by trigger symbol
	quant []bool           // per assert: contains a quantifier
}

func isGuardSym(s string) bool {
	return strings.HasPrefix(s, "g!") || strings.HasPrefix(s, "g_") || strings.HasPrefix(s, "cand!") || strings.HasPrefix(s, "alloc")
}

func tokenSyms(t string, decl map[string]bool) []string {
	var out []string
	seen := map[string]bool{}
	start := -1
	flush := func(end int) {
		if start >= 0 {
			w := t[start:end]
			if decl[w] && !seen[w] {
				seen[w] = true
				out = append(out, w)
			}
			start = -1
		}
	}
	for i := 0; i < len(t); i++ {
		c := t[i]
		if c == '(' || c == ')' || c == ' ' || c == '\n' || c == '\t' {
			flush(i)
		} else if start < 0 {
			start = i
		}
	}
	flush(len(t))
	return out
}

func newSlicer(vc *VC) *slicer {
	s := &slicer{vc: vc, decl: map[string]bool{}, byDef: map[string][]int{}, bySym: map[string][]int{}}
	for _, d := range vc.decls {
		f := strings.Fields(d)
		if len(f) >= 2 {
			s.decl[f[1]] = true
		}
	}
	s.syms = make([][]string, len(vc.asserts))
	s.trig = make([][]string, len(vc.asserts))
	s.quant = make([]bool, len(vc.asserts))
	for i, a := range vc.asserts {
		s.quant[i] = strings.Contains(a, "(forall ") || strings.Contains(a, "(exists ")
		s.syms[i] = tokenSyms(a, s.decl)
		if vc.adef[i] != "" {
			s.byDef[vc.adef[i]] = append(s.byDef[vc.adef[i]], i)
			continue
		}
		for _, y := range s.syms[i] {
			if !isGuardSym(y) {
				s.trig[i] = append(s.trig[i], y)
				s.bySym[y] = append(s.bySym[y], i)
			}
		}
		if len(s.trig[i]) == 0 {
			// an assumption purely about guards (path infeasibility): always keep
			for _, y := range s.syms[i] {
				s.bySym[y] = append(s.bySym[y], i)
			}
		}
	}
	return s
}

// slice returns the indices of the asserts relevant to the given terms.
// Symbols reached only through a quantified assumption are "weak": they pull in
// definitions and quantifier-free facts but no further quantified assumptions,
// which keeps unrelated axioms and array-copy facts out of the query.
func (s *slicer) slice(upto int, terms ...string) []bool {
	inScope := func(i int) bool { return i < upto || s.vc.aglobal[i] }
	inc := make([]bool, len(s.vc.asserts))
	rel := map[string]int{} // 1 = weak, 2 = strong
	type item struct {
		sym      string
		strength int
	}
	var work []item
	add := func(y string, st int) {
		if rel[y] < st {
			rel[y] = st
			work = append(work, item{y, st})
		}
	}
	for _, t := range terms {
		for _, y := range tokenSyms(t, s.decl) {
			add(y, 2)
		}
	}
	for len(work) > 0 {
		it := work[len(work)-1]
		work = work[:len(work)-1]
		if rel[it.sym] > it.strength {
			continue // superseded by a stronger entry
		}
		for _, i := range s.byDef[it.sym] {
			if !inc[i] && inScope(i) {
				inc[i] = true
				for _, z := range s.syms[i] {
					add(z, it.strength)
				}
			}
		}
		for _, i := range s.bySym[it.sym] {
			if inc[i] || !inScope(i) {
				continue
			}
			if s.quant[i] {
				if it.strength < 2 {
					continue
				}
				inc[i] = true
				for _, z := range s.syms[i] {
					add(z, 1)
				}
				continue
			}
			inc[i] = true
			for _, z := range s.syms[i] {
				add(z, it.strength)
			}
		}
	}
	return inc
}
