package main

// SMT-LIB term construction. Terms are plain strings; a few builders do light
// simplification so that generated scripts stay readable and small.

import (
	"fmt"
	"math/big"
	"strings"
)

type Term = string

type Sort int

const (
	SInt Sort = iota
	SBool
	SArrInt   // (Array Int Int)
	SArrBool  // (Array Int Bool)
	SArr2Int  // (Array Int (Array Int Int))
	SArr2Bool // (Array Int (Array Int Bool))
)

func (s Sort) String() string {
	switch s {
	case SInt:
		return "Int"
	case SBool:
		return "Bool"
	case SArrInt:
		return "(Array Int Int)"
	case SArrBool:
		return "(Array Int Bool)"
	case SArr2Int:
		return "(Array Int (Array Int Int))"
	case SArr2Bool:
		return "(Array Int (Array Int Bool))"
	}
	return "?"
}

func arrOf(s Sort) Sort {
	switch s {
	case SInt:
		return SArrInt
	case SBool:
		return SArrBool
	case SArrInt:
		return SArr2Int
	case SArrBool:
		return SArr2Bool
	}
	panic("arrOf: unsupported nesting of " + s.String())
}

func elemOf(s Sort) Sort {
	switch s {
	case SArrInt:
		return SInt
	case SArrBool:
		return SBool
	case SArr2Int:
		return SArrInt
	case SArr2Bool:
		return SArrBool
	}
	panic("elemOf: not an array sort " + s.String())
}

func isNum(t Term) bool {
	if t == "" {
		return false
	}
	if strings.HasPrefix(t, "(- ") && strings.HasSuffix(t, ")") {
		return isDigits(t[3 : len(t)-1])
	}
	return isDigits(t)
}

func isDigits(s string) bool {
	if s == "" {
		return false
	}
	for _, r := range s {
		if r < '0' || r > '9' {
			return false
		}
	}
	return true
}

func numVal(t Term) *big.Int {
	neg := false
	if strings.HasPrefix(t, "(- ") {
		neg = true
		t = t[3 : len(t)-1]
	}
	v, ok := new(big.Int).SetString(t, 10)
	if !ok {
		panic("numVal " + t)
	}
	if neg {
		v.Neg(v)
	}
	return v
}

func numBig(v *big.Int) Term {
	if v.Sign() < 0 {
		return "(- " + new(big.Int).Neg(v).String() + ")"
	}
	return v.String()
}

func num(v int64) Term { return numBig(big.NewInt(v)) }

func mkAnd(ts ...Term) Term {
	var out []Term
	for _, t := range ts {
		if t == "true" || t == "" {
			continue
		}
		if t == "false" {
			return "false"
		}
		out = append(out, t)
	}
	switch len(out) {
	case 0:
		return "true"
	case 1:
		return out[0]
	}
	return "(and " + strings.Join(out, " ") + ")"
}

func mkOr(ts ...Term) Term {
	var out []Term
	for _, t := range ts {
		if t == "false" || t == "" {
			continue
		}
		if t == "true" {
			return "true"
		}
		out = append(out, t)
	}
	switch len(out) {
	case 0:
		return "false"
	case 1:
		return out[0]
	}
	return "(or " + strings.Join(out, " ") + ")"
}

func mkNot(t Term) Term {
	switch t {
	case "true":
		return "false"
	case "false":
		return "true"
	}
	if strings.HasPrefix(t, "(not ") && balanced(t[5:len(t)-1]) {
		return t[5 : len(t)-1]
	}
	return "(not " + t + ")"
}

// balanced reports whether s is a single well-formed term (used to strip a
// double negation safely).
func balanced(s string) bool {
	depth := 0
	for i, r := range s {
		switch r {
		case '(':
			depth++
		case ')':
			depth--
			if depth < 0 {
				return false
			}
			if depth == 0 && i != len(s)-1 {
				return false
			}
		case ' ':
			if depth == 0 {
				return false
			}
		}
	}
	return depth == 0
}

func mkImp(a, b Term) Term {
	if a == "true" {
		return b
	}
	if a == "false" || b == "true" {
		return "true"
	}
	if b == "false" {
		return mkNot(a)
	}
	return "(=> " + a + " " + b + ")"
}

func mkEq(a, b Term) Term {
	if a == b {
		return "true"
	}
	if isNum(a) && isNum(b) {
		if numVal(a).Cmp(numVal(b)) == 0 {
			return "true"
		}
		return "false"
	}
	if (a == "true" || a == "false") && (b == "true" || b == "false") {
		return "false" // a != b textually
	}
	if b == "true" {
		return a
	}
	if a == "true" {
		return b
	}
	if b == "false" {
		return mkNot(a)
	}
	if a == "false" {
		return mkNot(b)
	}
	return "(= " + a + " " + b + ")"
}

func mkIte(c, a, b Term) Term {
	if c == "true" {
		return a
	}
	if c == "false" {
		return b
	}
	if a == b {
		return a
	}
	return "(ite " + c + " " + a + " " + b + ")"
}

func mkAdd(a, b Term) Term {
	if isNum(a) && isNum(b) {
		return numBig(new(big.Int).Add(numVal(a), numVal(b)))
	}
	if a == "0" {
		return b
	}
	if b == "0" {
		return a
	}
	return "(+ " + a + " " + b + ")"
}

func mkSub(a, b Term) Term {
	if isNum(a) && isNum(b) {
		return numBig(new(big.Int).Sub(numVal(a), numVal(b)))
	}
	if b == "0" {
		return a
	}
	if a == b {
		return "0"
	}
	return "(- " + a + " " + b + ")"
}

func mkMul(a, b Term) Term {
	if isNum(a) && isNum(b) {
		return numBig(new(big.Int).Mul(numVal(a), numVal(b)))
	}
	if a == "1" {
		return b
	}
	if b == "1" {
		return a
	}
	if a == "0" || b == "0" {
		return "0"
	}
	return "(* " + a + " " + b + ")"
}

// mkDiv / mkMod are SMT-LIB euclidean div/mod (callers handle Go's truncation).
func mkDiv(a, b Term) Term {
	if isNum(a) && isNum(b) && numVal(b).Sign() > 0 && numVal(a).Sign() >= 0 {
		return numBig(new(big.Int).Div(numVal(a), numVal(b)))
	}
	if b == "1" {
		return a
	}
	return "(div " + a + " " + b + ")"
}

func mkMod(a, b Term) Term {
	if isNum(a) && isNum(b) && numVal(b).Sign() > 0 {
		return numBig(new(big.Int).Mod(numVal(a), numVal(b)))
	}
	return "(mod " + a + " " + b + ")"
}

func mkCmp(op string, a, b Term) Term {
	if isNum(a) && isNum(b) {
		c := numVal(a).Cmp(numVal(b))
		var r bool
		switch op {
		case "<":
			r = c < 0
		case "<=":
			r = c <= 0
		case ">":
			r = c > 0
		case ">=":
			r = c >= 0
		}
		if r {
			return "true"
		}
		return "false"
	}
	return "(" + op + " " + a + " " + b + ")"
}

func mkLe(a, b Term) Term { return mkCmp("<=", a, b) }
func mkLt(a, b Term) Term { return mkCmp("<", a, b) }
func mkGe(a, b Term) Term { return mkCmp(">=", a, b) }
func mkGt(a, b Term) Term { return mkCmp(">", a, b) }

func mkSel(a, i Term) Term    { return "(select " + a + " " + i + ")" }
func mkSto(a, i, v Term) Term { return "(store " + a + " " + i + " " + v + ")" }

func mkApp(f string, args ...Term) Term {
	if len(args) == 0 {
		return f
	}
	return "(" + f + " " + strings.Join(args, " ") + ")"
}

func constArray(s Sort, v Term) Term {
	return fmt.Sprintf("((as const %s) %s)", s, v)
}

func zeroOfSort(s Sort) Term {
	switch s {
	case SInt:
		return "0"
	case SBool:
		return "false"
	case SArrInt:
		return constArray(SArrInt, "0")
	case SArrBool:
		return constArray(SArrBool, "false")
	case SArr2Int:
		return constArray(SArr2Int, constArray(SArrInt, "0"))
	case SArr2Bool:
		return constArray(SArr2Bool, constArray(SArrBool, "false"))
	}
	panic("zeroOfSort")
}

func sanitize(s string) string {
	return strings.Map(func(r rune) rune {
		if r >= 'a' && r <= 'z' || r >= 'A' && r <= 'Z' || r >= '0' && r <= '9' || r == '_' || r == '.' {
			return r
		}
		return '_'
	}, s)
}
