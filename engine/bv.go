package main

// Bit-vector side proof for attrsBitmap.set / attrsBitmap.isSet.
//
// The integer engine sees these two functions only through their set-view
// contract over the uninterpreted predicate bmHas. Here the real SSA of both
// functions is translated to QF_ABV and the set view is proved with bmHas
// *defined as isSet's own body*, so the proof does not depend on the layout of
// the bitmap:
//   (member_after_set)  isSet(set(A,b), c) == (isSet(A,c) || c == b)
//   (empty)             isSet(zero, c) == false
//   (no index out of range in either function)

import (
	"fmt"
	"go/token"
	"go/types"
	"strings"

	"golang.org/x/tools/go/ssa"
)

type bvVal struct {
	t string
	w int // bit width; 0 = Bool
}

type bvRun struct {
	arr     string // current array term
	idxW    int
	elemW   int
	n       int64
	oblig   []string // conditions that must hold (index in range)
	result  *bvVal
	failure string
}

func bvWidth(t types.Type) int {
	b, ok := t.Underlying().(*types.Basic)
	if !ok {
		return -1
	}
	switch b.Kind() {
	case types.Bool:
		return 0
	case types.Uint8, types.Int8:
		return 8
	case types.Uint16, types.Int16:
		return 16
	case types.Uint32, types.Int32:
		return 32
	case types.Uint64, types.Int64, types.Uint, types.Int:
		return 64
	}
	return -1
}

func bvLit(v uint64, w int) string { return fmt.Sprintf("(_ bv%d %d)", v, w) }

func bvExt(v bvVal, w int) string {
	if v.w == w {
		return v.t
	}
	if v.w < w {
		return fmt.Sprintf("((_ zero_extend %d) %s)", w-v.w, v.t)
	}
	return fmt.Sprintf("((_ extract %d 0) %s)", w-1, v.t)
}

// bvExec symbolically executes a straight-line function whose receiver is a
// pointer to an array of unsigned integers.
func bvExec(fn *ssa.Function, arr string, params map[string]string) *bvRun {
	r := &bvRun{arr: arr}
	if len(fn.Blocks) != 1 {
		r.failure = "function is not straight-line"
		return r
	}
	recv := fn.Params[0]
	pt, ok := recv.Type().Underlying().(*types.Pointer)
	if !ok {
		r.failure = "receiver is not a pointer"
		return r
	}
	at, ok := pt.Elem().Underlying().(*types.Array)
	if !ok {
		r.failure = "receiver does not point to an array"
		return r
	}
	r.n = at.Len()
	r.elemW = bvWidth(at.Elem())
	if r.elemW <= 0 {
		r.failure = "array element is not an integer"
		return r
	}
	vals := map[ssa.Value]bvVal{}
	addrs := map[ssa.Value]string{} // IndexAddr -> index term (already extended to idxW)
	get := func(v ssa.Value) (bvVal, bool) {
		if c, ok := v.(*ssa.Const); ok {
			w := bvWidth(c.Type())
			if w < 0 {
				return bvVal{}, false
			}
			if w == 0 {
				return bvVal{fmt.Sprint(c.Value.String() == "true"), 0}, true
			}
			return bvVal{bvLit(c.Uint64(), w), w}, true
		}
		x, ok := vals[v]
		return x, ok
	}
	for _, p := range fn.Params[1:] {
		w := bvWidth(p.Type())
		if w <= 0 {
			r.failure = "unsupported parameter type " + p.Type().String()
			return r
		}
		vals[p] = bvVal{params[p.Name()], w}
	}
	for _, in := range fn.Blocks[0].Instrs {
		switch x := in.(type) {
		case *ssa.DebugRef:
		case *ssa.BinOp:
			a, ok1 := get(x.X)
			b, ok2 := get(x.Y)
			if !ok1 || !ok2 {
				r.failure = "operand without translation in " + x.String()
				return r
			}
			w := bvWidth(x.Type())
			switch x.Op {
			case token.QUO:
				vals[x] = bvVal{fmt.Sprintf("(bvudiv %s %s)", a.t, b.t), a.w}
			case token.REM:
				vals[x] = bvVal{fmt.Sprintf("(bvurem %s %s)", a.t, b.t), a.w}
			case token.SHL:
				vals[x] = bvVal{fmt.Sprintf("(bvshl %s %s)", a.t, bvExt(b, a.w)), a.w}
				if b.w > a.w {
					// shift counts beyond the operand width: Go yields 0; keep exact
					vals[x] = bvVal{fmt.Sprintf("(ite (bvuge %s %s) %s (bvshl %s %s))", b.t, bvLit(uint64(a.w), b.w), bvLit(0, a.w), a.t, bvExt(b, a.w)), a.w}
				}
			case token.SHR:
				vals[x] = bvVal{fmt.Sprintf("(bvlshr %s %s)", a.t, bvExt(b, a.w)), a.w}
			case token.OR:
				vals[x] = bvVal{fmt.Sprintf("(bvor %s %s)", a.t, b.t), a.w}
			case token.AND:
				vals[x] = bvVal{fmt.Sprintf("(bvand %s %s)", a.t, b.t), a.w}
			case token.XOR:
				vals[x] = bvVal{fmt.Sprintf("(bvxor %s %s)", a.t, b.t), a.w}
			case token.AND_NOT:
				vals[x] = bvVal{fmt.Sprintf("(bvand %s (bvnot %s))", a.t, b.t), a.w}
			case token.ADD:
				vals[x] = bvVal{fmt.Sprintf("(bvadd %s %s)", a.t, b.t), a.w}
			case token.SUB:
				vals[x] = bvVal{fmt.Sprintf("(bvsub %s %s)", a.t, b.t), a.w}
			case token.MUL:
				vals[x] = bvVal{fmt.Sprintf("(bvmul %s %s)", a.t, b.t), a.w}
			case token.EQL:
				vals[x] = bvVal{fmt.Sprintf("(= %s %s)", a.t, b.t), 0}
			case token.NEQ:
				vals[x] = bvVal{fmt.Sprintf("(not (= %s %s))", a.t, b.t), 0}
			case token.LSS:
				vals[x] = bvVal{fmt.Sprintf("(bvult %s %s)", a.t, b.t), 0}
			case token.GTR:
				vals[x] = bvVal{fmt.Sprintf("(bvugt %s %s)", a.t, b.t), 0}
			default:
				r.failure = "unsupported operator " + x.Op.String()
				return r
			}
			_ = w
		case *ssa.Convert:
			a, ok := get(x.X)
			w := bvWidth(x.Type())
			if !ok || w <= 0 || a.w <= 0 {
				r.failure = "unsupported conversion " + x.String()
				return r
			}
			vals[x] = bvVal{bvExt(a, w), w}
		case *ssa.IndexAddr:
			if x.X != recv {
				r.failure = "index into something other than the receiver"
				return r
			}
			i, ok := get(x.Index)
			if !ok || i.w <= 0 {
				r.failure = "unsupported index " + x.String()
				return r
			}
			if r.idxW == 0 {
				r.idxW = i.w
			}
			if i.w != r.idxW {
				r.failure = "indices of different widths"
				return r
			}
			r.oblig = append(r.oblig, fmt.Sprintf("(bvult %s %s)", i.t, bvLit(uint64(r.n), i.w)))
			addrs[x] = i.t
		case *ssa.UnOp:
			switch x.Op {
			case token.MUL:
				idx, ok := addrs[x.X]
				if !ok {
					r.failure = "load from an unknown address"
					return r
				}
				vals[x] = bvVal{fmt.Sprintf("(select %s %s)", r.arr, idx), r.elemW}
			case token.NOT:
				a, _ := get(x.X)
				vals[x] = bvVal{"(not " + a.t + ")", 0}
			default:
				r.failure = "unsupported unary operator"
				return r
			}
		case *ssa.Store:
			idx, ok := addrs[x.Addr]
			v, ok2 := get(x.Val)
			if !ok || !ok2 {
				r.failure = "store to an unknown address"
				return r
			}
			r.arr = fmt.Sprintf("(store %s %s %s)", r.arr, idx, v.t)
		case *ssa.Return:
			if len(x.Results) == 1 {
				v, ok := get(x.Results[0])
				if !ok {
					r.failure = "untranslated result"
					return r
				}
				r.result = &v
			}
		default:
			r.failure = fmt.Sprintf("unsupported instruction %T", in)
			return r
		}
	}
	return r
}

// bvProof builds the side-proof obligations as a pseudo unit.
func (e *Engine) bvProof() *UnitResult {
	name := "bv:attrsBitmap"
	vc := newVC(e, name)
	res := &UnitResult{Name: name, VC: vc, HasSpec: true}
	set, isSet := e.funcs["attrsBitmap.set"], e.funcs["attrsBitmap.isSet"]
	if set == nil || isSet == nil {
		res.Err = fmt.Errorf("attrsBitmap.set / isSet not found")
		return res
	}
	add := func(label string, query string, failure string) {
		o := &Oblig{Name: fmt.Sprintf("%s#bv[%s]", name, label), Kind: "bv", Label: label, Unit: name, Cand: -1, Pos: e.pos(set.Pos())}
		if failure != "" {
			o.Status, o.Solver, o.Note = "unknown", "bv", "outside the bit-vector subset: "+failure
		} else {
			st, _, raw, secs := bvQuery(query)
			o.Status, o.Solver, o.TimeS, o.Note = st, "z3-new(QF_ABV)", secs, firstLines(raw, 2)
		}
		vc.obligs = append(vc.obligs, o)
	}
	// element/index widths from a probe run
	probe := bvExec(isSet, "A", map[string]string{isSet.Params[1].Name(): "c"})
	if probe.failure != "" || probe.result == nil || probe.idxW == 0 {
		add("translate", "", "isSet: "+probe.failure)
		return res
	}
	cw := bvWidth(isSet.Params[1].Type())
	decl := fmt.Sprintf("(set-logic QF_ABV)\n(declare-fun A () (Array (_ BitVec %d) (_ BitVec %d)))\n(declare-fun b () (_ BitVec %d))\n(declare-fun c () (_ BitVec %d))\n", probe.idxW, probe.elemW, cw, cw)
	s := bvExec(set, "A", map[string]string{set.Params[1].Name(): "b"})
	if s.failure != "" || s.elemW != probe.elemW || s.idxW != probe.idxW {
		add("translate", "", "set: "+s.failure+" (or layout differs from isSet)")
		return res
	}
	isA := probe.result.t
	after := bvExec(isSet, s.arr, map[string]string{isSet.Params[1].Name(): "c"})
	zero := fmt.Sprintf("((as const (Array (_ BitVec %d) (_ BitVec %d))) %s)", probe.idxW, probe.elemW, bvLit(0, probe.elemW))
	empty := bvExec(isSet, zero, map[string]string{isSet.Params[1].Name(): "c"})
	add("member_after_set", decl+fmt.Sprintf("(assert (not (= %s (or %s (= c b)))))\n(check-sat)\n", after.result.t, isA), "")
	add("empty_bitmap_has_no_member", decl+fmt.Sprintf("(assert %s)\n(check-sat)\n", empty.result.t), "")
	add("isSet_index_in_range", decl+fmt.Sprintf("(assert (not (and %s)))\n(check-sat)\n", strings.Join(append(probe.oblig, "true"), " ")), "")
	add("set_index_in_range", decl+fmt.Sprintf("(assert (not (and %s)))\n(check-sat)\n", strings.Join(append(s.oblig, "true"), " ")), "")
	vc.note("bit-vector side proof: bmHas is defined as the body of attrsBitmap.isSet; set/isSet SSA translated to QF_ABV")
	vc.coverSt = "sat"
	return res
}

func bvQuery(q string) (status, model, raw string, secs float64) {
	o := &Oblig{Guard: "true", Goal: "true"}
	_ = o
	return rawQuery(solvers[0], q, 20000)
}
