package main

// Evaluation of contract expressions to SMT terms in a symbolic state.

import (
	"go/token"
	"fmt"
	"os"
	"go/constant"
	"go/types"
	"strings"

	"golang.org/x/tools/go/ssa"
)

var tIntArray = types.NewArray(types.Typ[types.Int64], 0)

var (
	tMathInt  = types.Typ[types.UntypedInt]
	tMathBool = types.Typ[types.UntypedBool]
	tNil      = types.Typ[types.UntypedNil]
)

type Env struct {
	fc        *FnCtx
	vc        *VC
	st        *State
	old       *State
	vars      map[string]SV
	oldVars   map[string]SV
	entryVars map[string]SV
	entrySt   *State
	bound     map[string]Term
	lets      map[string]Expr
	at        *ssa.BasicBlock
	atInstr   ssa.Instruction
	inQuant   int
	depth     int
	errs      []string
	nquant    *int
	noFc      bool // closed contract: do not resolve the caller's locals
	qnames    []Term        // SMT names of all quantifier variables in scope (never shadowed)
	cells     map[string]SV // captured variables of a closure contract: name -> pointer to the variable
	cellVars  bool
}

type specError struct{ msg string }

func (env *Env) fail(format string, args ...interface{}) {
	panic(specError{fmt.Sprintf(format, args...)})
}

func (env *Env) sub() *Env {
	c := *env
	c.vars = map[string]SV{}
	for k, v := range env.vars {
		c.vars[k] = v
	}
	c.bound = map[string]Term{}
	for k, v := range env.bound {
		c.bound[k] = v
	}
	return &c
}

func mathInt(t Term) SV  { return SV{Typ: tMathInt, T: []Term{t}} }
func mathBool(t Term) SV { return SV{Typ: tMathBool, T: []Term{t}} }

func (env *Env) evalBool(e Expr) Term {
	v := env.eval(e)
	if len(v.T) != 1 {
		env.fail("boolean expected, got %v in %s", v.Typ, exprString(e))
	}
	if !env.isBoolSV(v) {
		env.fail("boolean expected in %s (got %v)", exprString(e), v.Typ)
	}
	return v.T[0]
}

func (env *Env) isBoolSV(v SV) bool {
	if v.Typ == tMathBool {
		return true
	}
	if v.Typ == nil || v.Typ == tMathInt || v.Typ == tNil {
		return false
	}
	if b, ok := v.Typ.Underlying().(*types.Basic); ok {
		return b.Info()&types.IsBoolean != 0
	}
	return false
}

func (env *Env) evalInt(e Expr) Term {
	v := env.eval(e)
	if len(v.T) != 1 || env.isBoolSV(v) {
		env.fail("integer expected in %s (got %v)", exprString(e), v.Typ)
	}
	return v.T[0]
}

func (env *Env) load(lv *LV) SV {
	if env.inQuant > 0 {
		// raw select terms: bound variables may occur in the address
		sh := env.vc.e.shape(lv.Typ)
		out := SV{Typ: lv.Typ}
		for _, l := range sh.Leaves {
			col, s, two := env.vc.lvLeafCol(lv, l)
			env.vc.refColumn(col, s, l)
			h := env.vc.colGet(env.st, col, s)
			if two {
				out.T = append(out.T, env.vc.readCol(h, lv.Ref, lv.Idx, 0))
			} else {
				out.T = append(out.T, env.vc.readCol(h, lv.Ref, "", 0))
			}
		}
		// ground reads (no bound variable in the address) still get their type facts
		ground := true
		for _, t := range out.T {
			for _, b := range env.qnames {
				if strings.Contains(t, b) {
					ground = false
				}
			}
		}
		if ground && os.Getenv("CBV_NO_GROUNDWF") == "" {
			env.vc.assert(mkImp(env.st.guard, env.vc.wf(out, env.st.alloc)))
		}
		return out
	}
	return env.vc.load(env.st, lv)
}

func (env *Env) lookupIdent(name string) (SV, bool) {
	if v, ok := env.lookupIdent1(name); ok {
		return v, true
	}
	// renamed variable: bound by position (parameters) or by type (locals)
	if env.fc != nil {
		if alt, ok := env.fc.unitCtx().alias[name]; ok && alt != name {
			if v, ok := env.lookupIdent1(alt); ok {
				return v, true
			}
		}
	}
	return SV{}, false
}

func (env *Env) lookupIdent1(name string) (SV, bool) {
	if t, ok := env.bound[name]; ok {
		return mathInt(t), true
	}
	if c, ok := env.cells[name]; ok && isPointer(c.Typ) {
		// captured variable: its value in the current state
		return env.load(env.vc.e.rootLV(c.one(), pointee(c.Typ))), true
	}
	if v, ok := env.vars[name]; ok {
		return v, true
	}
	if e, ok := env.lets[name]; ok {
		return env.eval(e), true
	}
	if name == "nil" {
		return SV{Typ: tNil, T: []Term{"0"}}, true
	}
	if (name == "rangepos" || name == "rangelen") && env.fc != nil {
		if id, ok := env.fc.rangeIter(); ok {
			if name == "rangepos" {
				return mathInt(env.fc.ghostGet(env.st, "iterPos", SInt, id)), true
			}
			env.vc.declUF("iterLen", []Sort{SInt}, SInt)
			return mathInt(mkApp("iterLen", id)), true
		}
	}
	if env.fc != nil && !env.noFc {
		if gv, ok := env.fc.unitCtx().ghostVars[name]; ok {
			t := env.fc.ghostGet(env.st, "var."+name, gv.Sort, "0")
			switch gv.Sort {
			case SBool:
				return mathBool(t), true
			case SArrInt:
				return SV{Typ: tIntArray, T: []Term{t}}, true
			}
			return mathInt(t), true
		}
	}
	if env.fc != nil {
		if v, ok := env.fc.ghostEnv[name]; ok {
			return v, true
		}
		if !env.noFc {
			if v, ok := env.fc.resolveLocal(name, env.at, env.atInstr, env.st); ok {
				return v, true
			}
		}
	}
	if obj, ok := env.vc.e.pkgConst(name); ok {
		if c, isC := obj.(*types.Const); isC {
			switch c.Val().Kind() {
			case constant.Int:
				return SV{Typ: c.Type(), T: []Term{numBigStr(c.Val().ExactString())}}, true
			case constant.Bool:
				return mathBool(fmt.Sprint(constant.BoolVal(c.Val()))), true
			case constant.String:
				return SV{Typ: c.Type(), T: []Term{num(int64(env.vc.e.strID(constant.StringVal(c.Val()))))}}, true
			}
		}
		if _, isV := obj.(*types.Var); isV && env.fc != nil {
			// package-level variable (error sentinels)
			if g, ok := env.vc.e.spkg.Members[name].(*ssa.Global); ok {
				if sv, ok := env.fc.globalValue(env.st, g); ok {
					return sv, true
				}
			}
		}
	}
	return SV{}, false
}

func numBigStr(s string) Term {
	if strings.HasPrefix(s, "-") {
		return "(- " + s[1:] + ")"
	}
	return s
}

func (env *Env) eval(e Expr) SV {
	switch x := e.(type) {
	case *ENum:
		return mathInt(x.V)
	case *EBool:
		return mathBool(fmt.Sprint(x.V))
	case *EStr:
		return SV{Typ: types.Typ[types.String], T: []Term{num(int64(env.vc.e.strID(x.V)))}}
	case *EIdent:
		v, ok := env.lookupIdent(x.Name)
		if !ok {
			env.fail("unknown identifier %q", x.Name)
		}
		return v
	case *ESel:
		return env.evalSel(x)
	case *EIndex:
		return env.evalIndex(x)
	case *ESlice:
		s := env.eval(x.X)
		if s.Typ == nil || !isSlice(s.Typ) {
			env.fail("slice expression on non-slice %s", exprString(x.X))
		}
		lo, hi := "0", s.ln()
		if x.Lo != nil {
			lo = env.evalInt(x.Lo)
		}
		if x.Hi != nil {
			hi = env.evalInt(x.Hi)
		}
		return SV{Typ: s.Typ, T: []Term{s.arr(), mkAdd(s.off(), lo), mkSub(hi, lo), mkSub(s.cp(), lo)}}
	case *EUn:
		switch x.Op {
		case "!":
			return mathBool(mkNot(env.evalBool(x.X)))
		case "-":
			return mathInt(mkSub("0", env.evalInt(x.X)))
		case "*":
			p := env.eval(x.X)
			if p.Typ == nil || !isPointer(p.Typ) {
				env.fail("dereference of non-pointer %s", exprString(x.X))
			}
			return env.load(env.vc.e.rootLV(p.one(), pointee(p.Typ)))
		}
	case *EBin:
		return env.evalBin(x)
	case *ECond:
		c := env.evalBool(x.C)
		a, b := env.eval(x.A), env.eval(x.B)
		a, b = env.unify(a, b)
		out := SV{Typ: a.Typ}
		for i := range a.T {
			out.T = append(out.T, mkIte(c, a.T[i], b.T[i]))
		}
		return out
	case *EQuant:
		sub := env.sub()
		sub.inQuant++
		var binders []string
		for _, v := range x.Vars {
			*env.nquant++
			bn := fmt.Sprintf("%s_q%d", v, *env.nquant)
			sub.bound[v] = bn
			sub.qnames = append(append([]Term{}, sub.qnames...), bn)
			delete(sub.vars, v)
			binders = append(binders, "("+bn+" Int)")
		}
		body := sub.evalBool(x.Body)
		q := "exists"
		if x.Forall {
			q = "forall"
		}
		return mathBool("(" + q + " (" + strings.Join(binders, " ") + ") " + body + ")")
	case *ECall:
		return env.evalCall(x)
	}
	env.fail("cannot evaluate %s", exprString(e))
	return SV{}
}

// unify makes nil literals / math ints take the shape of the other operand.
func (env *Env) unify(a, b SV) (SV, SV) {
	if len(a.T) == len(b.T) {
		return a, b
	}
	if a.Typ == tNil && b.Typ != nil {
		return env.vc.zero(b.Typ), b
	}
	if b.Typ == tNil && a.Typ != nil {
		return a, env.vc.zero(a.Typ)
	}
	env.fail("operands of different shapes: %v vs %v", a.Typ, b.Typ)
	return a, b
}

func (env *Env) evalBin(x *EBin) SV {
	switch x.Op {
	case "&&":
		return mathBool(mkAnd(env.evalBool(x.L), env.evalBool(x.R)))
	case "||":
		return mathBool(mkOr(env.evalBool(x.L), env.evalBool(x.R)))
	case "==>":
		return mathBool(mkImp(env.evalBool(x.L), env.evalBool(x.R)))
	case "<==>":
		return mathBool(mkEq(env.evalBool(x.L), env.evalBool(x.R)))
	case "==", "!=":
		a, b := env.eval(x.L), env.eval(x.R)
		var eq Term
		if (a.Typ != nil && a.Typ != tNil && isSlice(a.Typ) && b.Typ == tNil) || (b.Typ != nil && b.Typ != tNil && isSlice(b.Typ) && a.Typ == tNil) {
			s := a
			if a.Typ == tNil {
				s = b
			}
			eq = mkEq(s.arr(), "0")
		} else {
			a, b = env.unify(a, b)
			eq = svEq(a, b)
		}
		if x.Op == "!=" {
			eq = mkNot(eq)
		}
		return mathBool(eq)
	case "<", "<=", ">", ">=":
		return mathBool(mkCmp(x.Op, env.evalInt(x.L), env.evalInt(x.R)))
	case "+":
		return mathInt(mkAdd(env.evalInt(x.L), env.evalInt(x.R)))
	case "-":
		return mathInt(mkSub(env.evalInt(x.L), env.evalInt(x.R)))
	case "*":
		return mathInt(mkMul(env.evalInt(x.L), env.evalInt(x.R)))
	case "/":
		// spec division is on non-negative operands (euclidean = truncated there)
		return mathInt(mkDiv(env.evalInt(x.L), env.evalInt(x.R)))
	case "%":
		return mathInt(mkMod(env.evalInt(x.L), env.evalInt(x.R)))
	}
	env.fail("unknown operator %s", x.Op)
	return SV{}
}

func (env *Env) evalSel(x *ESel) SV {
	b := env.eval(x.X)
	if b.Typ == nil || b.Typ == tMathInt || b.Typ == tMathBool || b.Typ == tNil {
		env.fail("selector on untyped value %s", exprString(x))
	}
	// pseudo-fields
	if isSlice(b.Typ) {
		switch x.Name {
		case "arr":
			return mathInt(b.arr())
		case "off":
			return mathInt(b.off())
		case "len":
			return mathInt(b.ln())
		case "cap":
			return mathInt(b.cp())
		}
	}
	if isIface(b.Typ) {
		switch x.Name {
		case "tag":
			return mathInt(b.tag())
		case "val":
			return mathInt(b.ival())
		}
	}
	T := b.Typ
	if isPointer(T) {
		lv := env.vc.e.rootLV(b.one(), pointee(T))
		sub, ok := env.fieldLV(lv, x.Name)
		if !ok {
			env.fail("no field %s in %v", x.Name, T)
		}
		return env.load(sub)
	}
	if st, ok := T.Underlying().(*types.Struct); ok && !env.vc.e.isOpaqueStruct(T) {
		off := 0
		for i := 0; i < st.NumFields(); i++ {
			n := len(env.vc.e.shape(st.Field(i).Type()).Leaves)
			if st.Field(i).Name() == x.Name {
				return SV{Typ: st.Field(i).Type(), T: b.T[off : off+n]}
			}
			off += n
		}
	}
	env.fail("no field %s in %v", x.Name, T)
	return SV{}
}

func (env *Env) fieldLV(lv *LV, name string) (*LV, bool) {
	st, ok := lv.Typ.Underlying().(*types.Struct)
	if !ok {
		return nil, false
	}
	for i := 0; i < st.NumFields(); i++ {
		if st.Field(i).Name() == name {
			nl := *lv
			nl.Path = joinPath(lv.Path, name)
			nl.Typ = st.Field(i).Type()
			return &nl, true
		}
	}
	return nil, false
}

// evalLV evaluates an expression that denotes a location (for modifies).
func (env *Env) evalLV(e Expr) *LV {
	switch x := e.(type) {
	case *ESel:
		b := env.eval(x.X)
		if b.Typ != nil && isPointer(b.Typ) {
			lv := env.vc.e.rootLV(b.one(), pointee(b.Typ))
			if sub, ok := env.fieldLV(lv, x.Name); ok {
				return sub
			}
		}
		// nested: x.X is itself a location (struct-valued field)
		if base := env.evalLV(x.X); base != nil {
			if sub, ok := env.fieldLV(base, x.Name); ok {
				return sub
			}
		}
	case *EUn:
		if x.Op == "*" {
			p := env.eval(x.X)
			if p.Typ != nil && isPointer(p.Typ) {
				return env.vc.e.rootLV(p.one(), pointee(p.Typ))
			}
		}
		if x.Op == "&" {
			if id, ok := x.X.(*EIdent); ok {
				if c, ok := env.cells[id.Name]; ok && isPointer(c.Typ) {
					return env.vc.e.rootLV(c.one(), pointee(c.Typ))
				}
				if env.fc != nil {
					for _, fv := range env.fc.fn.FreeVars {
						if fv.Name() == id.Name && isPointer(fv.Type()) {
							return env.fc.lvOf(fv)
						}
					}
				}
			}
		}
	case *EIndex:
		b := env.eval(x.X)
		if b.Typ != nil && isSlice(b.Typ) {
			elem := b.Typ.Underlying().(*types.Slice).Elem()
			return &LV{Col: env.vc.e.elemCol(elem), Ref: b.arr(), Idx: mkAdd(b.off(), env.evalInt(x.I)), HasIdx: true, Typ: elem, Elem: true}
		}
		if base := env.evalLV(x.X); base != nil {
			if at, ok := base.Typ.Underlying().(*types.Array); ok {
				nl := *base
				nl.Idx, nl.HasIdx, nl.Typ = env.evalInt(x.I), true, at.Elem()
				if !base.Elem {
					nl.Path = joinPath(base.Path, "[]")
				}
				return &nl
			}
		}
	}
	return nil
}

func (env *Env) evalIndex(x *EIndex) SV {
	// embedded arrays are locations: p.fsms[i]
	if sel, ok := x.X.(*ESel); ok {
		if lv := env.evalLV(sel); lv != nil {
			if at, ok := lv.Typ.Underlying().(*types.Array); ok {
				nl := *lv
				nl.Idx, nl.HasIdx, nl.Typ = env.evalInt(x.I), true, at.Elem()
				if !lv.Elem {
					nl.Path = joinPath(lv.Path, "[]")
				}
				return env.load(&nl)
			}
		}
	}
	b := env.eval(x.X)
	if b.Typ == nil {
		env.fail("index on untyped value")
	}
	idx := env.evalInt(x.I)
	switch u := b.Typ.Underlying().(type) {
	case *types.Slice:
		lv := &LV{Col: env.vc.e.elemCol(u.Elem()), Ref: b.arr(), Idx: mkAdd(b.off(), idx), HasIdx: true, Typ: u.Elem(), Elem: true}
		return env.load(lv)
	case *types.Array:
		out := SV{Typ: u.Elem()}
		for _, t := range b.T {
			out.T = append(out.T, mkSel(t, idx))
		}
		return out
	case *types.Map:
		return env.fc.mapGet(env.st, b.Typ, b.one(), idx, env.inQuant > 0)
	case *types.Pointer:
		if at, ok := u.Elem().Underlying().(*types.Array); ok {
			lv := env.vc.e.rootLV(b.one(), u.Elem())
			nl := *lv
			nl.Idx, nl.HasIdx, nl.Typ = idx, true, at.Elem()
			return env.load(&nl)
		}
	}
	env.fail("cannot index %v", b.Typ)
	return SV{}
}

func (env *Env) withState(st *State, vars map[string]SV) *Env {
	c := *env
	c.st = st
	if vars != nil {
		c.vars = map[string]SV{}
		for k, v := range env.vars {
			c.vars[k] = v
		}
		for k, v := range vars {
			c.vars[k] = v
		}
	}
	return &c
}

func (env *Env) typeArg(e Expr) types.Type {
	s := ""
	switch x := e.(type) {
	case *EIdent:
		s = x.Name
	case *EUn:
		if x.Op == "*" {
			if t := env.typeArg(x.X); t != nil {
				return types.NewPointer(t)
			}
		}
	case *ESel:
		if id, ok := x.X.(*EIdent); ok {
			s = id.Name + "." + x.Name
		}
	}
	if s == "" {
		return nil
	}
	return env.vc.e.lookupType(s)
}

func (env *Env) evalCall(x *ECall) SV {
	e := env.vc.e
	argn := func(n int) {
		if len(x.Args) != n {
			env.fail("%s expects %d arguments", x.Fn, n)
		}
	}
	switch x.Fn {
	case "len":
		argn(1)
		v := env.eval(x.Args[0])
		switch {
		case v.Typ != nil && isSlice(v.Typ):
			return mathInt(v.ln())
		case v.Typ != nil && isArray(v.Typ):
			return mathInt(num(v.Typ.Underlying().(*types.Array).Len()))
		}
		env.fail("len of %v", v.Typ)
	case "cap":
		argn(1)
		return mathInt(env.eval(x.Args[0]).cp())
	case "old":
		argn(1)
		if env.old == nil {
			env.fail("old() outside a postcondition")
		}
		c := *env
		c.st = env.old
		if env.oldVars != nil {
			c.vars = map[string]SV{}
			for k, v := range env.vars {
				c.vars[k] = v
			}
			for k, v := range env.oldVars {
				c.vars[k] = v
			}
		}
		return c.eval(x.Args[0])
	case "entry":
		argn(1)
		if env.entryVars == nil {
			env.fail("entry() outside a loop step clause")
		}
		c := *env
		c.st = env.entrySt
		c.vars = map[string]SV{}
		for k, v := range env.vars {
			c.vars[k] = v
		}
		for k, v := range env.entryVars {
			c.vars[k] = v
		}
		return c.eval(x.Args[0])
	case "fresh":
		// allocated during this activation
		argn(1)
		v := env.eval(x.Args[0])
		base := env.old
		if base == nil {
			env.fail("fresh() outside a postcondition")
		}
		return mathBool(mkLe(base.alloc, v.T[0]))
	case "allocated":
		// the reference was allocated before the current program point
		argn(1)
		v := env.eval(x.Args[0])
		return mathBool(mkLt(v.T[len(v.T)-1], env.st.alloc))
	case "sameSlice":
		argn(2)
		a, b := env.eval(x.Args[0]), env.eval(x.Args[1])
		return mathBool(mkAnd(mkEq(a.arr(), b.arr()), mkEq(a.off(), b.off()), mkEq(a.ln(), b.ln())))
	case "isType":
		argn(2)
		v := env.eval(x.Args[0])
		T := env.typeArg(x.Args[1])
		if T == nil {
			env.fail("unknown type in %s", exprString(x))
		}
		return mathBool(mkEq(v.tag(), num(int64(e.tagOf(T)))))
	case "asType":
		argn(2)
		v := env.eval(x.Args[0])
		T := env.typeArg(x.Args[1])
		if T == nil {
			env.fail("unknown type in %s", exprString(x))
		}
		if env.inQuant > 0 && !pointerShaped(T) {
			env.fail("asType of boxed value under a quantifier")
		}
		return env.fc.unbox(env.st, v.ival(), T)
	case "int", "int64", "uint8", "uint16", "uint32", "uint64", "byte":
		argn(1)
		t := env.evalInt(x.Args[0])
		if x.Fn == "int" || x.Fn == "int64" {
			return mathInt(t)
		}
		return mathInt(wrapTo(t, e.lookupType(x.Fn)))
	case "min":
		argn(2)
		a, b := env.evalInt(x.Args[0]), env.evalInt(x.Args[1])
		return mathInt(mkIte(mkLe(a, b), a, b))
	case "max":
		argn(2)
		a, b := env.evalInt(x.Args[0]), env.evalInt(x.Args[1])
		return mathInt(mkIte(mkLe(a, b), b, a))
	case "chanClosed":
		argn(1)
		return mathBool(env.fc.ghostGet(env.st, "chanClosed", SBool, env.eval(x.Args[0]).one()))
	case "allocmark":
		// allocmark(): the allocation counter now; a reference r was allocated after
		// the mark was taken iff r >= mark
		argn(0)
		return mathInt(env.st.alloc)
	case "chanCap":
		// chanCap(ch): the buffer size the channel was made with (0 = rendezvous)
		argn(1)
		return mathInt(env.fc.ghostGet(env.st, "chanCap", SInt, env.eval(x.Args[0]).one()))
	case "sliceOf":
		// sliceOf(arr, off, len, ElemType): the slice with that header (ghost-captured identity)
		argn(4)
		T := env.typeArg(x.Args[3])
		if T == nil {
			env.fail("sliceOf: unknown element type in %s", exprString(x))
		}
		ln := env.evalInt(x.Args[2])
		return SV{Typ: types.NewSlice(T), T: []Term{env.evalInt(x.Args[0]), env.evalInt(x.Args[1]), ln, ln}}
	case "rangekey":
		// rangekey(k): the k-th key of the (single) map range loop of this function
		argn(1)
		id, ok := env.fc.rangeIter()
		if !ok {
			env.fail("rangekey: the function has no map range loop")
		}
		env.vc.declUF("iterKey", []Sort{SInt, SInt}, SInt)
		return mathInt(mkApp("iterKey", id, env.evalInt(x.Args[0])))
	case "has":
		// has(m, k): key k is present in map m
		argn(2)
		m := env.eval(x.Args[0])
		k := env.eval(x.Args[1])
		if m.Typ == nil {
			env.fail("has: not a map")
		}
		if _, ok := m.Typ.Underlying().(*types.Map); !ok {
			env.fail("has: not a map")
		}
		dom, _, _, _ := env.fc.mapCols(m.Typ)
		return mathBool(mkSel(mkSel(env.vc.colGet(env.st, dom, SArr2Bool), m.one()), k.T[0]))
	case "mapLen":
		argn(1)
		m := env.eval(x.Args[0])
		return mathInt(env.fc.ghostGet(env.st, "mapLen", SInt, m.one()))
	case "onceDone":
		// onceDone(x.f): the sync.Once stored in field f of x has fired
		argn(1)
		lv := env.evalLV(x.Args[0])
		if lv == nil {
			env.fail("onceDone needs a field location: %s", exprString(x))
		}
		return mathBool(env.fc.ghostGet(env.st, "onceDone", SBool, env.fc.interiorPtr(lv)))
	case "hasType":
		// hasType(err, *T): err's tree contains a value of dynamic type *T
		argn(2)
		v := env.eval(x.Args[0])
		T := env.typeArg(x.Args[1])
		if T == nil {
			env.fail("unknown type in %s", exprString(x))
		}
		return mathBool(env.fc.errHasType(v, T))
	case "wrapsOne", "wrapsMany":
		// wrapsOne(err) / wrapsMany(err): err's dynamic type has an `Unwrap() error` /
		// `Unwrap() []error` method, i.e. the type switch arm of a tree walk takes it
		// (the very predicate the VC uses for `err.(interface{ Unwrap() error })`)
		argn(1)
		v := env.eval(x.Args[0])
		errT := types.Universe.Lookup("error").Type()
		var resT types.Type = errT
		if x.Fn == "wrapsMany" {
			resT = types.NewSlice(errT)
		}
		sig := types.NewSignatureType(nil, nil, nil, nil, types.NewTuple(types.NewVar(0, nil, "", resT)), false)
		it := types.NewInterfaceType([]*types.Func{types.NewFunc(0, nil, "Unwrap", sig)}, nil)
		it.Complete()
		return mathBool(mkAnd(mkNot(mkEq(v.tag(), "0")), env.fc.implementsTerm(v.tag(), it)))
	case "firstOf":
		// firstOf(err, *T): the value errors.As would store for target **T
		argn(2)
		v := env.eval(x.Args[0])
		T := env.typeArg(x.Args[1])
		return SV{Typ: T, T: []Term{env.fc.errFirst(v, T)}}
	case "contains":
		argn(2)
		return mathBool(env.fc.errContains(env.eval(x.Args[0]), env.eval(x.Args[1])))
	case "hasTypeTV":
		argn(3)
		T := env.typeArg(x.Args[2])
		if T == nil {
			env.fail("unknown type in %s", exprString(x))
		}
		errT := types.Universe.Lookup("error").Type()
		el := SV{Typ: errT, T: []Term{env.evalInt(x.Args[0]), env.evalInt(x.Args[1])}}
		return mathBool(env.fc.errHasType(el, T))
	case "asPtr":
		// asPtr(intExpr, *T): view an integer (e.g. an interface's .val) as a typed pointer
		argn(2)
		T := env.typeArg(x.Args[1])
		if T == nil || !isPointer(T) {
			env.fail("asPtr needs a pointer type in %s", exprString(x))
		}
		return SV{Typ: T, T: []Term{env.evalInt(x.Args[0])}}
	case "tagOf":
		argn(1)
		T := env.typeArg(x.Args[0])
		if T == nil {
			env.fail("unknown type in %s", exprString(x))
		}
		return mathInt(num(int64(e.tagOf(T))))
	case "errContainsTV":
		// contains(err, (tag, val)) with the element given by its two components
		argn(3)
		errT := types.Universe.Lookup("error").Type()
		el := SV{Typ: errT, T: []Term{env.evalInt(x.Args[1]), env.evalInt(x.Args[2])}}
		return mathBool(env.fc.errContains(env.eval(x.Args[0]), el))
	}
	switch x.Fn {
	case "store":
		argn(3)
		a := env.eval(x.Args[0])
		return SV{Typ: tIntArray, T: []Term{mkSto(a.T[0], env.evalInt(x.Args[1]), env.evalInt(x.Args[2]))}}
	case "emptyArr":
		argn(0)
		return SV{Typ: tIntArray, T: []Term{constArray(SArrInt, "0")}}
	}
	if u, ok := e.spec.UFs[x.Fn]; ok {
		argn(u.Arity)
		var args []Term
		var sorts []Sort
		for _, a := range x.Args {
			v := env.eval(a)
			if len(v.T) != 1 {
				env.fail("uf %s: argument %s is not a scalar", x.Fn, exprString(a))
			}
			if env.isBoolSV(v) {
				env.fail("uf %s: boolean argument", x.Fn)
			}
			args = append(args, v.T[0])
			if v.Typ != nil && v.Typ != tMathInt && v.Typ != tNil && isArray(v.Typ) {
				sorts = append(sorts, SArrInt)
			} else {
				sorts = append(sorts, SInt)
			}
		}
		env.vc.declUF("uf_"+u.Name, sorts, u.Sort)
		env.vc.usedUF[u.Name] = true
		t := mkApp("uf_"+u.Name, args...)
		if u.Sort == SBool {
			return mathBool(t)
		}
		return mathInt(t)
	}
	if g, ok := e.spec.Ghosts[x.Fn]; ok && (g.Name == "locked" || g.Name == "lockCount") {
		argn(1)
		if lv := env.evalLV(x.Args[0]); lv != nil && env.vc.e.typeName(lv.Typ) == "sync.Mutex" {
			t := env.fc.ghostGet(env.st, g.Name, g.Sort, env.fc.interiorPtr(lv))
			if g.Sort == SBool {
				return mathBool(t)
			}
			return mathInt(t)
		}
	}
	if g, ok := e.spec.Ghosts[x.Fn]; ok {
		argn(1)
		k := env.eval(x.Args[0])
		key := k.T[len(k.T)-1] // interface: .val; pointer: the ref
		t := env.fc.ghostGet(env.st, g.Name, g.Sort, key)
		if g.Sort == SBool {
			return mathBool(t)
		}
		if g.Sort == SArrInt {
			return SV{Typ: tIntArray, T: []Term{t}}
		}
		return mathInt(t)
	}
	if p, ok := e.spec.Pures[x.Fn]; ok {
		if len(p.Params) != len(x.Args) {
			env.fail("%s expects %d arguments", x.Fn, len(p.Params))
		}
		if env.depth > 20 {
			env.fail("pure function expansion too deep (recursive?) at %s", x.Fn)
		}
		sub := env.sub()
		sub.depth++
		sub.lets = nil
		// pure bodies see only their parameters (plus constants and ghost state)
		sub.vars = map[string]SV{}
		sub.at, sub.atInstr = nil, nil
		for i, pn := range p.Params {
			sub.vars[pn] = env.eval(x.Args[i])
			delete(sub.bound, pn)
		}
		sub.noLocals()
		sub.noFc = true
		return sub.eval(p.Body)
	}
	env.fail("unknown function %s", x.Fn)
	return SV{}
}

// noLocals prevents a pure-function body from resolving function locals.
func (env *Env) noLocals() {
	env.at = nil
	env.atInstr = nil
	env.lets = nil
}

// env builds the spec environment of the function for a program point.
func (fc *FnCtx) env(st *State, at *ssa.BasicBlock) *Env {
	env := &Env{fc: fc, vc: fc.vc, st: st, old: fc.entry, vars: map[string]SV{}, bound: map[string]Term{}, at: at, nquant: &fc.vc.n, cells: fc.cells}
	if at == nil {
		// function-level clause: parameter names denote entry values
		for k, v := range fc.entryEnv {
			env.vars[k] = v
		}
	}
	env.oldVars = fc.entryEnv
	if fc.contract != nil {
		env.lets = map[string]Expr{}
		for _, l := range fc.contract.Lets {
			env.lets[l.Name] = l.E
		}
	}
	return env
}

// resolveLocal finds the value of a source-level local variable at a program
// point: the nearest dominating DebugRef, an address-taken variable's cell, or
// a captured variable.
func (fc *FnCtx) resolveLocal(name string, at *ssa.BasicBlock, atInstr ssa.Instruction, st *State) (SV, bool) {
	// captured variables (closures): FreeVar holds the address of the variable
	for _, fv := range fc.fn.FreeVars {
		if fv.Name() == name {
			if isPointer(fv.Type()) {
				return fc.vc.load(st, fc.lvOf(fv)), true
			}
			return fc.val(fv), true
		}
	}
	// address-taken locals and spilled parameters: Alloc with that comment
	for _, b := range fc.fn.Blocks {
		for _, in := range b.Instrs {
			if a, ok := in.(*ssa.Alloc); ok && a.Comment == name {
				if _, have := fc.vals[a]; have {
					return fc.vc.load(st, fc.lvOf(a)), true
				}
			}
		}
	}
	refs := fc.dbg[name]
	if at != nil {
		// reaching definition: the nearest dominating DebugRef or phi of that variable
		type cand struct {
			blk *ssa.BasicBlock
			idx int
			val ssa.Value
		}
		var cands []cand
		instrIdx := func(in ssa.Instruction) int {
			for i, x := range in.Block().Instrs {
				if x == in {
					return i
				}
			}
			return -1
		}
		for _, r := range refs {
			cands = append(cands, cand{r.Block(), instrIdx(r), r.X})
		}
		for _, b := range fc.fn.Blocks {
			for i, in := range b.Instrs {
				phi, ok := in.(*ssa.Phi)
				if !ok {
					break
				}
				if phi.Comment == name {
					cands = append(cands, cand{b, i, phi})
				}
			}
		}
		atIdx := 1 << 30
		if atInstr != nil {
			atIdx = instrIdx(atInstr)
		}
		var best *cand
		for i := range cands {
			c := &cands[i]
			if _, have := fc.vals[c.val]; !have && !isConst(c.val) {
				if _, isParam := c.val.(*ssa.Parameter); !isParam {
					continue
				}
			}
			if c.blk == at {
				if c.idx >= atIdx {
					continue
				}
			} else if !c.blk.Dominates(at) {
				continue
			}
			if best == nil {
				best = c
				continue
			}
			if c.blk == best.blk {
				if c.idx > best.idx {
					best = c
				}
			} else if best.blk.Dominates(c.blk) {
				best = c
			}
		}
		if best != nil {
			return fc.val(best.val), true
		}
	}
	for _, p := range fc.fn.Params {
		if p.Name() == name {
			if v, ok := fc.vals[p]; ok {
				return v, true
			}
		}
	}
	// the index variable of a range loop, asked for at the loop head (an invariant
	// written for `for i := 0; i < n; i++`): there it is rangeindex + 1, the index
	// the next iteration will use = the number of completed iterations
	if at != nil {
		for _, r := range refs {
			bo, ok := r.X.(*ssa.BinOp)
			if !ok || bo.Op != token.ADD {
				continue
			}
			phi, ok := bo.X.(*ssa.Phi)
			c, isC := bo.Y.(*ssa.Const)
			if !ok || !isC || phi.Comment != "rangeindex" || c.Int64() != 1 {
				continue
			}
			if phi.Block() == at || phi.Block().Dominates(at) {
				if pv, have := fc.vals[phi]; have {
					return SV{Typ: r.X.Type(), T: []Term{mkAdd(pv.one(), "1")}}, true
				}
			}
		}
	}
	// unique definition anywhere
	if len(refs) > 0 {
		first := refs[0].X
		uniq := true
		for _, r := range refs[1:] {
			if r.X != first {
				uniq = false
			}
		}
		if uniq {
			if v, ok := fc.vals[first]; ok {
				return v, true
			}
		}
	}
	return SV{}, false
}

// rangeIter: the iterator id of the unique map range loop already translated.
func (fc *FnCtx) rangeIter() (Term, bool) {
	var found Term
	n := 0
	for r := range fc.rangeMap {
		if v, ok := fc.vals[r]; ok {
			found = v.one()
			n++
		}
	}
	return found, n == 1
}

func instrBefore(a, b ssa.Instruction) bool {
	if a.Block() != b.Block() {
		return false
	}
	for _, in := range a.Block().Instrs {
		if in == a {
			return true
		}
		if in == b {
			return false
		}
	}
	return false
}

// better: is candidate r a later (closer) definition than best for point `at`?
func better(r, best *ssa.DebugRef, at *ssa.BasicBlock) bool {
	rb, bb := r.Block(), best.Block()
	if rb == bb {
		return instrBefore(best, r)
	}
	// the one dominated by the other is closer
	return bb.Dominates(rb)
}

// safeEval runs f and converts spec evaluation failures into a VC error.
func (vc *VC) safeEval(where string, f func()) {
	defer func() {
		if r := recover(); r != nil {
			if se, ok := r.(specError); ok {
				if vc.err == nil {
					vc.err = fmt.Errorf("%s: %s", where, se.msg)
				}
				return
			}
			panic(r)
		}
	}()
	f()
}
