package main

import (
	"fmt"
	"go/ast"
	"go/constant"
	"go/token"
	"go/types"
	"math/big"
	"os"
	"sort"
	"strings"

	"golang.org/x/tools/go/ssa"
)

func (fc *FnCtx) unsupported(what string) {
	fc.vc.note("UNSUPPORTED in " + fc.name + ": " + what)
}

func (fc *FnCtx) val(v ssa.Value) SV {
	switch x := v.(type) {
	case *ssa.Const:
		return fc.constVal(x)
	case *ssa.Function:
		return SV{Typ: x.Type(), T: []Term{num(int64(fc.e.funcID(x)))}}
	case *ssa.Global:
		return SV{Typ: x.Type(), T: []Term{num(int64(fc.e.globalID(x)))}}
	case *ssa.FreeVar:
		if sv, ok := fc.freeBind[x]; ok {
			return sv
		}
	}
	if sv, ok := fc.vals[v]; ok {
		return sv
	}
	// value not computed (unsupported instruction produced it): arbitrary
	fc.unsupported(fmt.Sprintf("value %s = %s has no translation", v.Name(), v.String()))
	sv := fc.vc.havoc(v.Type(), "unk_"+v.Name(), "")
	fc.vals[v] = sv
	return sv
}

func (fc *FnCtx) constVal(c *ssa.Const) SV {
	t := c.Type()
	if c.Value == nil {
		return fc.vc.zero(t)
	}
	switch c.Value.Kind() {
	case constant.Bool:
		if constant.BoolVal(c.Value) {
			return SV{Typ: t, T: []Term{"true"}}
		}
		return SV{Typ: t, T: []Term{"false"}}
	case constant.Int:
		if bt, ok := t.Underlying().(*types.Basic); ok && bt.Info()&types.IsInteger != 0 {
			v, _ := new(big.Int).SetString(c.Value.ExactString(), 10)
			return SV{Typ: t, T: []Term{numBig(v)}}
		}
	case constant.String:
		return SV{Typ: t, T: []Term{num(int64(fc.e.strID(constant.StringVal(c.Value))))}}
	}
	if bt, ok := t.Underlying().(*types.Basic); ok && bt.Info()&types.IsInteger != 0 {
		if v, ok := constant.Int64Val(constant.ToInt(c.Value)); ok {
			return SV{Typ: t, T: []Term{num(v)}}
		}
	}
	// float or other: opaque constant identified by its text
	return SV{Typ: t, T: []Term{num(int64(fc.e.strID("const:" + c.Value.ExactString())))}}
}

func (e *Engine) funcID(f *ssa.Function) int {
	return e.strID("func:" + f.String())
}

func (e *Engine) globalID(g *ssa.Global) int {
	return e.strID("global:" + g.String())
}

// lvOf interprets a pointer-typed SSA value as a location.
func (fc *FnCtx) lvOf(v ssa.Value) *LV {
	if lv, ok := fc.lvs[v]; ok {
		return lv
	}
	if fv, ok := v.(*ssa.FreeVar); ok {
		if lv, ok := fc.freeLV[fv]; ok {
			return lv
		}
	}
	return fc.e.rootLV(fc.val(v).one(), pointee(v.Type()))
}

// isInterior reports whether v is a derived (FieldAddr/IndexAddr) location.
func (fc *FnCtx) isInterior(v ssa.Value) bool {
	if _, ok := fc.lvs[v]; ok {
		return true
	}
	if fv, ok := v.(*ssa.FreeVar); ok {
		_, ok := fc.freeLV[fv]
		return ok
	}
	return false
}

func (fc *FnCtx) srcOf(pos token.Pos, kinds ...string) string {
	return fc.e.srcText(pos, func(n ast.Node) bool {
		for _, k := range kinds {
			switch k {
			case "index":
				if _, ok := n.(*ast.IndexExpr); ok {
					return true
				}
			case "slice":
				if _, ok := n.(*ast.SliceExpr); ok {
					return true
				}
			case "selector":
				if _, ok := n.(*ast.SelectorExpr); ok {
					return true
				}
			case "call":
				if _, ok := n.(*ast.CallExpr); ok {
					return true
				}
			case "star":
				if _, ok := n.(*ast.StarExpr); ok {
					return true
				}
			case "binary":
				if _, ok := n.(*ast.BinaryExpr); ok {
					return true
				}
			case "assert":
				if _, ok := n.(*ast.TypeAssertExpr); ok {
					return true
				}
			case "expr":
				if _, ok := n.(ast.Expr); ok {
					return true
				}
			case "stmt":
				if _, ok := n.(ast.Stmt); ok {
					return true
				}
			}
		}
		return false
	})
}

func (fc *FnCtx) safety(st *State, what string, pos token.Pos, src string, goal Term) {
	if goal == "true" {
		return
	}
	detail := what
	if src != "" {
		detail += " " + src
	}
	fc.vc.oblige(st, "safety", what, detail, fc.e.pos(pos), goal)
	// execution continues past this point only if the check passed
	st.guard = fc.vc.define("g_ok", SBool, mkAnd(st.guard, goal))
}

func (fc *FnCtx) nilCheck(st *State, v ssa.Value, pos token.Pos) {
	if fc.isInterior(v) {
		return
	}
	switch v.(type) {
	case *ssa.Alloc, *ssa.Global:
		return
	}
	t := fc.val(v).one()
	if isNum(t) && t != "0" {
		return
	}
	fc.safety(st, "nil-deref", pos, fc.valueSourceName(v), mkNot(mkEq(t, "0")))
}

// execBlock translates the instructions of b starting in st and returns the
// outgoing edges.
func (fc *FnCtx) execBlock(b *ssa.BasicBlock, st *State) []edgeOut {
	vc := fc.vc
	for _, in := range b.Instrs {
		if st.dead {
			return nil
		}
		switch x := in.(type) {
		case *ssa.Phi, *ssa.DebugRef:
			// phis are bound by join()
		case *ssa.Alloc:
			r := fc.newRef(st, "new_"+x.Comment)
			fc.vals[x] = SV{Typ: x.Type(), T: []Term{r}}
			T := pointee(x.Type())
			vc.store(st, fc.e.rootLV(r, T), vc.zero(T))
			if isStruct(T) && !fc.e.isOpaqueStruct(T) {
				// ghost fields of a new object start at their default value
				var gs []string
				for g := range fc.e.spec.Ghosts {
					gs = append(gs, g)
				}
				sort.Strings(gs)
				for _, g := range gs {
					gf := fc.e.spec.Ghosts[g]
					if gf.Of == "" || gf.Of != fc.e.typeName(T) {
						continue
					}
					fc.ghostSet(st, g, gf.Sort, r, zeroOfSort(gf.Sort))
				}
				fc.onceInit(st, r, T)
			}
		case *ssa.FieldAddr:
			fc.nilCheck(st, x.X, x.Pos())
			base := fc.lvOf(x.X)
			sT := pointee(x.X.Type()).Underlying().(*types.Struct)
			f := sT.Field(x.Field)
			nl := *base
			nl.Path = joinPath(base.Path, f.Name())
			nl.Typ = f.Type()
			fc.lvs[x] = &nl
			fc.vals[x] = SV{Typ: x.Type(), T: []Term{fc.interiorPtr(&nl)}}
		case *ssa.Field:
			sv := fc.val(x.X)
			sT := x.X.Type().Underlying().(*types.Struct)
			off := 0
			for i := 0; i < x.Field; i++ {
				off += len(fc.e.shape(sT.Field(i).Type()).Leaves)
			}
			n := len(fc.e.shape(sT.Field(x.Field).Type()).Leaves)
			fc.vals[x] = SV{Typ: x.Type(), T: sv.T[off : off+n]}
		case *ssa.IndexAddr:
			fc.indexAddr(st, x)
		case *ssa.Index:
			sv := fc.val(x.X)
			idx := fc.val(x.Index).one()
			if at, ok := x.X.Type().Underlying().(*types.Array); ok {
				fc.safety(st, "index", x.Pos(), fc.srcOf(x.Pos(), "index"), mkAnd(mkLe("0", idx), mkLt(idx, num(at.Len()))))
				out := SV{Typ: x.Type()}
				for _, t := range sv.T {
					out.T = append(out.T, mkSel(t, idx))
				}
				fc.vals[x] = out
			} else {
				fc.unsupported("Index on " + x.X.Type().String())
				fc.vals[x] = vc.havoc(x.Type(), "idx", st.alloc)
			}
		case *ssa.UnOp:
			fc.unop(st, x)
		case *ssa.BinOp:
			r := fc.binop(st, x)
			if len(r.T) == 1 && strings.Contains(r.T[0], "(ite ") && os.Getenv("CBV_NO_BINDEF") == "" {
				srt := SInt
				if fc.e.shape(x.Type()).Leaves[0].Sort == SBool {
					srt = SBool
				}
				r.T[0] = vc.define("v_"+x.Name(), srt, r.T[0])
			}
			fc.vals[x] = r
		case *ssa.Store:
			fc.nilCheck(st, x.Addr, x.Pos())
			lv := fc.lvOf(x.Addr)
			v := fc.coerce(fc.val(x.Val), lv.Typ)
			fc.frameCheck(st, lv, x.Pos())
			fc.guardCheck(st, lv, x.Pos(), "write")
			fc.ownCheck(st, lv, x.Pos())
			vc.store(st, lv, v)
			fc.afterStore(st, lv, x)
		case *ssa.Convert:
			fc.vals[x] = fc.convert(st, x)
		case *ssa.ChangeType:
			fc.vals[x] = SV{Typ: x.Type(), T: fc.val(x.X).T}
		case *ssa.ChangeInterface:
			fc.vals[x] = SV{Typ: x.Type(), T: fc.val(x.X).T}
		case *ssa.MakeInterface:
			fc.vals[x] = fc.makeInterface(st, fc.val(x.X), x.X.Type(), x.Type())
		case *ssa.TypeAssert:
			fc.typeAssert(st, x)
		case *ssa.Slice:
			fc.sliceOp(st, x)
		case *ssa.MakeSlice:
			ln := fc.val(x.Len).one()
			cp := fc.val(x.Cap).one()
			fc.safety(st, "makeslice", x.Pos(), fc.srcOf(x.Pos(), "call"), mkAnd(mkLe("0", ln), mkLe(ln, cp)))
			elem := x.Type().Underlying().(*types.Slice).Elem()
			arr := fc.newArray(st, elem, "mk")
			fc.vals[x] = SV{Typ: x.Type(), T: []Term{arr, "0", ln, cp}}
		case *ssa.MakeMap:
			r := fc.newRef(st, "map")
			fc.vals[x] = SV{Typ: x.Type(), T: []Term{r}}
			fc.mapInit(st, x.Type(), r)
		case *ssa.MakeChan:
			r := fc.newRef(st, "chan")
			fc.vals[x] = SV{Typ: x.Type(), T: []Term{r}}
			fc.ghostSet(st, "chanClosed", SBool, r, "false")
			fc.ghostSet(st, "chanCap", SInt, r, fc.val(x.Size).one())
		case *ssa.MakeClosure:
			r := fc.newRef(st, "closure")
			fc.closures[x] = x
			fc.vals[x] = SV{Typ: x.Type(), T: []Term{r}}
		case *ssa.Extract:
			tup := fc.val(x.Tuple)
			tt := x.Tuple.Type().(*types.Tuple)
			off := 0
			for i := 0; i < x.Index; i++ {
				off += len(fc.e.shape(tt.At(i).Type()).Leaves)
			}
			n := len(fc.e.shape(tt.At(x.Index).Type()).Leaves)
			fc.vals[x] = SV{Typ: x.Type(), T: tup.T[off : off+n]}
		case *ssa.Call:
			res := fc.call(st, x, x.Common())
			fc.vals[x] = res
		case *ssa.Defer:
			fc.deferAt[x] = st.guard
		case *ssa.RunDefers:
			fc.preDefer = st.clone()
			fc.runDefers(st)
		case *ssa.Go:
			fc.goStmt(st, x)
		case *ssa.Send:
			fc.send(st, x.Chan, fc.val(x.X), x.Pos())
		case *ssa.Select:
			fc.selectStmt(st, x)
		case *ssa.Lookup:
			fc.lookup(st, x)
		case *ssa.MapUpdate:
			fc.mapUpdate(st, x)
		case *ssa.Range:
			fc.rangeInit(st, x)
		case *ssa.Next:
			fc.rangeNext(st, x)
		case *ssa.If:
			c := fc.val(x.Cond).one()
			t := st.clone()
			t.guard = vc.define("g", SBool, mkAnd(st.guard, c))
			f := st.clone()
			f.guard = vc.define("g", SBool, mkAnd(st.guard, mkNot(c)))
			return []edgeOut{{b.Succs[0], t}, {b.Succs[1], f}}
		case *ssa.Jump:
			return []edgeOut{{b.Succs[0], st}}
		case *ssa.Return:
			var rs []SV
			for i, r := range x.Results {
				rs = append(rs, fc.coerce(fc.val(r), fc.fn.Signature.Results().At(i).Type()))
			}
			pre := st
			if fc.preDefer != nil {
				pre = fc.preDefer
				fc.preDefer = nil
			}
			fc.rets = append(fc.rets, retInfo{st: st, results: rs, ord: fc.retOrd[x], pos: x.Pos(), blk: b, instr: x, preSt: pre})
			return nil
		case *ssa.Panic:
			fc.safety(st, "panic", x.Pos(), fc.srcOf(x.Pos(), "call"), "false")
			return nil
		default:
			fc.unsupported(fmt.Sprintf("instruction %T", in))
			if v, ok := in.(ssa.Value); ok {
				fc.vals[v] = vc.havoc(v.Type(), "unsup", st.alloc)
			}
		}
	}
	return nil
}

// guardCheck: accesses to a field declared `guardedby T.f T.mu` require the
// mutex of the same object to be held (unless the object is still private to
// this activation).
func (fc *FnCtx) guardCheck(st *State, lv *LV, pos token.Pos, what string) {
	if lv.HasIdx || lv.Elem {
		return
	}
	field := lv.Path
	if k := strings.Index(field, "."); k >= 0 {
		field = field[:k]
	}
	mu, ok := fc.e.spec.Guarded[lv.Col+"."+field]
	if !ok {
		return
	}
	mf := mu[strings.Index(mu, ".")+1:]
	mlv := &LV{Col: lv.Col, Path: mf, Ref: lv.Ref}
	held := fc.ghostGet(st, "locked", SBool, fc.interiorPtr(mlv))
	root := fc.unitCtx()
	goal := mkOr(mkLe(root.entry.alloc, lv.Ref), held)
	fc.vc.oblige(st, "lock", "", what+" "+lv.Col+"."+field+" under "+mu, fc.e.pos(pos), goal)
}

// ownCheck: a write to a field declared `owner T.f ... writewhen G` needs G(self)
// at the store, unless the object was allocated by this activation.
func (fc *FnCtx) ownCheck(st *State, lv *LV, pos token.Pos) {
	if lv.Elem {
		return
	}
	field := lv.Path
	if k := strings.Index(field, "."); k >= 0 {
		field = field[:k]
	}
	if k := strings.Index(field, "["); k >= 0 {
		field = field[:k]
	}
	od := fc.e.spec.Owners[lv.Col+"."+field]
	if od == nil || od.WriteWhen == nil {
		return
	}
	T := fc.e.lookupType("*" + lv.Col)
	if T == nil {
		return
	}
	env := fc.env(st, nil)
	env.fcLocalsOff()
	env.vars = map[string]SV{"self": {Typ: T, T: []Term{lv.Ref}}}
	fc.vc.safeEval("owner "+od.Field, func() {
		g := env.evalBool(od.WriteWhen)
		root := fc.unitCtx()
		goal := mkOr(mkLe(root.entry.alloc, lv.Ref), g)
		fc.vc.oblige(st, "own", "", "write "+od.Field+" only when "+od.WhenSrc, fc.e.pos(pos), goal)
	})
}

func (fc *FnCtx) newRef(st *State, hint string) Term {
	r := fc.vc.define(hint, SInt, st.alloc)
	if r == st.alloc && !isNum(r) {
		// keep a distinct name for readability of models
		r = fc.vc.fresh(hint, SInt)
		fc.vc.assertDef(r, mkEq(r, st.alloc))
	}
	st.alloc = fc.vc.define("alloc", SInt, mkAdd(r, "1"))
	return r
}

// newArray allocates a zeroed backing array for elements of type elem.
func (fc *FnCtx) newArray(st *State, elem types.Type, hint string) Term {
	arr := fc.newRef(st, hint+"_arr")
	for _, l := range fc.e.shape(elem).Leaves {
		col := fc.e.elemCol(elem)
		if l.Path != "" {
			col += "." + l.Path
		}
		s := arrOf(arrOf(l.Sort))
		h := fc.vc.colGet(st, col, s)
		fc.vc.colSet(st, col, s, mkSto(h, arr, zeroOfSort(arrOf(l.Sort))))
	}
	return arr
}

// interiorPtr is the value of a pointer to an interior location. It is an
// uninterpreted injective encoding; only sync.* methods may receive it.
func (fc *FnCtx) interiorPtr(lv *LV) Term {
	name := "addr_" + sanitize(lv.Col+"."+lv.Path)
	first := !fc.vc.ufDecl[name]
	if lv.HasIdx {
		fc.vc.declUF(name, []Sort{SInt, SInt}, SInt)
		if first {
			// addresses of distinct locations are distinct (injective encoding)
			fc.vc.declUF(name+"_obj", []Sort{SInt}, SInt)
			fc.vc.declUF(name+"_idx", []Sort{SInt}, SInt)
			fc.vc.assertGlobal(fmt.Sprintf("(forall ((r Int) (i Int)) (and (= (%s_obj (%s r i)) r) (= (%s_idx (%s r i)) i) (not (= (%s r i) 0))))", name, name, name, name, name))
		}
		return mkApp(name, lv.Ref, lv.Idx)
	}
	fc.vc.declUF(name, []Sort{SInt}, SInt)
	if first {
		fc.vc.declUF(name+"_obj", []Sort{SInt}, SInt)
		// (the address of a field or element is never the nil pointer)
		fc.vc.assertGlobal(fmt.Sprintf("(forall ((r Int)) (and (= (%s_obj (%s r)) r) (not (= (%s r) 0))))", name, name, name))
	}
	return mkApp(name, lv.Ref)
}

func (fc *FnCtx) indexAddr(st *State, x *ssa.IndexAddr) {
	idx := fc.val(x.Index).one()
	src := fc.srcOf(x.Pos(), "index")
	switch u := x.X.Type().Underlying().(type) {
	case *types.Slice:
		s := fc.val(x.X)
		fc.safety(st, "index", x.Pos(), src, mkAnd(mkLe("0", idx), mkLt(idx, s.ln())))
		lv := &LV{Col: fc.e.elemCol(u.Elem()), Ref: s.arr(), Idx: mkAdd(s.off(), idx), HasIdx: true, Typ: u.Elem(), Elem: true}
		fc.lvs[x] = lv
		fc.vals[x] = SV{Typ: x.Type(), T: []Term{fc.interiorPtr(lv)}}
	case *types.Pointer:
		at := u.Elem().Underlying().(*types.Array)
		fc.nilCheck(st, x.X, x.Pos())
		base := fc.lvOf(x.X)
		if base.HasIdx {
			fc.unsupported("array nested in indexed location")
		}
		fc.safety(st, "index", x.Pos(), src, mkAnd(mkLe("0", idx), mkLt(idx, num(at.Len()))))
		nl := *base
		nl.Idx, nl.HasIdx, nl.Typ = idx, true, at.Elem()
		if !base.Elem {
			nl.Path = joinPath(base.Path, "[]")
		}
		fc.lvs[x] = &nl
		fc.vals[x] = SV{Typ: x.Type(), T: []Term{fc.interiorPtr(&nl)}}
	default:
		fc.unsupported("IndexAddr on " + x.X.Type().String())
		fc.vals[x] = fc.vc.havoc(x.Type(), "ia", st.alloc)
	}
}

func (fc *FnCtx) unop(st *State, x *ssa.UnOp) {
	vc := fc.vc
	switch x.Op {
	case token.MUL:
		fc.nilCheck(st, x.X, x.Pos())
		if g, ok := x.X.(*ssa.Global); ok {
			if sv, ok := fc.globalValue(st, g); ok {
				fc.vals[x] = sv
				return
			}
		}
		lv := fc.lvOf(x.X)
		fc.guardCheck(st, lv, x.Pos(), "read")
		fc.vals[x] = vc.load(st, lv)
		fc.timerChanOf(x, lv)
		fc.loadedFrom[x] = lv
	case token.NOT:
		fc.vals[x] = SV{Typ: x.Type(), T: []Term{mkNot(fc.val(x.X).one())}}
	case token.SUB:
		fc.vals[x] = SV{Typ: x.Type(), T: []Term{wrapTo(mkSub("0", fc.val(x.X).one()), x.Type())}}
	case token.ARROW:
		fc.vals[x] = fc.recv(st, x.X, x.CommaOk, x.Type(), x.Pos())
	default:
		fc.unsupported("UnOp " + x.Op.String())
		fc.vals[x] = vc.havoc(x.Type(), "unop", st.alloc)
	}
}

func pow2(k uint) *big.Int { return new(big.Int).Lsh(big.NewInt(1), k) }

func isUnsigned(t types.Type) bool {
	b, ok := t.Underlying().(*types.Basic)
	return ok && b.Info()&types.IsUnsigned != 0
}

func (fc *FnCtx) binop(st *State, x *ssa.BinOp) SV {
	vc := fc.vc
	a, b := fc.val(x.X), fc.val(x.Y)
	res := func(t Term) SV { return SV{Typ: x.Type(), T: []Term{t}} }
	switch x.Op {
	case token.EQL, token.NEQ:
		var eq Term
		switch {
		case isSlice(x.X.Type()) || isSlice(x.Y.Type()):
			// only comparison against nil is legal
			s := a
			if !isSlice(x.X.Type()) || len(a.T) != 4 {
				s = b
			}
			if len(s.T) != 4 {
				s = fc.coerce(s, x.X.Type())
			}
			eq = mkEq(s.arr(), "0")
		default:
			bb := b
			if len(a.T) != len(b.T) {
				if len(b.T) == 1 {
					bb = fc.coerce(b, x.X.Type())
				} else {
					a = fc.coerce(a, x.Y.Type())
				}
			}
			eq = svEq(a, bb)
		}
		if x.Op == token.NEQ {
			eq = mkNot(eq)
		}
		return res(eq)
	case token.LSS, token.LEQ, token.GTR, token.GEQ:
		if bt, ok := x.X.Type().Underlying().(*types.Basic); ok && bt.Info()&types.IsInteger == 0 {
			// string/float ordering: uninterpreted
			return vc.havoc(x.Type(), "cmp", "")
		}
		op := map[token.Token]string{token.LSS: "<", token.LEQ: "<=", token.GTR: ">", token.GEQ: ">="}[x.Op]
		return res(mkCmp(op, a.one(), b.one()))
	}
	bt, isBasic := x.Type().Underlying().(*types.Basic)
	if !isBasic || bt.Info()&types.IsInteger == 0 {
		if isBasic && bt.Info()&types.IsBoolean != 0 {
			switch x.Op {
			case token.AND:
				return res(mkAnd(a.one(), b.one()))
			case token.OR:
				return res(mkOr(a.one(), b.one()))
			}
		}
		// string concatenation, float arithmetic: opaque
		return vc.havoc(x.Type(), "opq", "")
	}
	at, btm := a.one(), b.one()
	switch x.Op {
	case token.ADD:
		return res(wrapTo(mkAdd(at, btm), x.Type()))
	case token.SUB:
		return res(wrapTo(mkSub(at, btm), x.Type()))
	case token.MUL:
		return res(wrapTo(mkMul(at, btm), x.Type()))
	case token.QUO, token.REM:
		fc.safety(st, "div-by-zero", x.Pos(), fc.srcOf(x.Pos(), "binary"), mkNot(mkEq(btm, "0")))
		if isUnsigned(x.Type()) || (isNum(btm) && numVal(btm).Sign() > 0 && false) {
			if x.Op == token.QUO {
				return res(mkDiv(at, btm))
			}
			return res(mkMod(at, btm))
		}
		// signed: Go truncates toward zero
		abs := func(t Term) Term { return mkIte(mkLe("0", t), t, mkSub("0", t)) }
		q := mkDiv(abs(at), abs(btm))
		if x.Op == token.QUO {
			sameSign := mkEq(mkLe("0", at), mkLe("0", btm))
			if isNum(btm) && numVal(btm).Sign() > 0 {
				sameSign = mkLe("0", at)
			}
			return res(wrapTo(mkIte(sameSign, q, mkSub("0", q)), x.Type()))
		}
		r := mkMod(abs(at), abs(btm))
		return res(mkIte(mkLe("0", at), r, mkSub("0", r)))
	case token.AND, token.OR, token.XOR, token.SHL, token.SHR, token.AND_NOT:
		return res(fc.bitop(x, at, btm))
	}
	fc.unsupported("BinOp " + x.Op.String())
	return vc.havoc(x.Type(), "binop", "")
}

func (fc *FnCtx) bitop(x *ssa.BinOp, a, b Term) Term {
	vc := fc.vc
	unsignedOrNonneg := isUnsigned(x.X.Type())
	constOf := func(t Term) (*big.Int, bool) {
		if isNum(t) {
			return numVal(t), true
		}
		return nil, false
	}
	switch x.Op {
	case token.AND:
		v, c := a, b
		cv, ok := constOf(c)
		if !ok {
			v, c = b, a
			cv, ok = constOf(c)
		}
		if ok && cv.Sign() >= 0 && unsignedOrNonneg {
			if cv.Sign() == 0 {
				return "0"
			}
			// single bit
			if new(big.Int).And(cv, new(big.Int).Sub(cv, big.NewInt(1))).Sign() == 0 {
				return mkMul(numBig(cv), mkMod(mkDiv(v, numBig(cv)), "2"))
			}
			// low mask 2^k-1
			plus := new(big.Int).Add(cv, big.NewInt(1))
			if new(big.Int).And(plus, cv).Sign() == 0 {
				return mkMod(v, numBig(plus))
			}
			// high mask within the type: all bits from k up to width
			if lo, hi, ok := intRange(x.Type()); ok && lo == "0" {
				full := numVal(hi)
				inv := new(big.Int).Sub(full, cv) // should be 2^k-1
				p := new(big.Int).Add(inv, big.NewInt(1))
				if new(big.Int).And(p, inv).Sign() == 0 {
					return mkSub(v, mkMod(v, numBig(p)))
				}
			}
		}
	case token.SHL:
		if cv, ok := constOf(b); ok && cv.IsInt64() && cv.Int64() < 64 {
			return wrapTo(mkMul(a, numBig(pow2(uint(cv.Int64())))), x.Type())
		}
		if isNum(a) && a == "0" {
			return "0"
		}
	case token.SHR:
		if cv, ok := constOf(b); ok && cv.IsInt64() && cv.Int64() < 64 && unsignedOrNonneg {
			return mkDiv(a, numBig(pow2(uint(cv.Int64()))))
		}
	case token.OR:
		if a == "0" {
			return b
		}
		if b == "0" {
			return a
		}
	}
	// abstracted: uninterpreted function of the operands, result in range
	name := "bitop_" + map[token.Token]string{token.AND: "and", token.OR: "or", token.XOR: "xor", token.SHL: "shl", token.SHR: "shr", token.AND_NOT: "andnot"}[x.Op]
	vc.declUF(name, []Sort{SInt, SInt}, SInt)
	t := vc.define("bit", SInt, mkApp(name, a, b))
	if lo, hi, ok := intRange(x.Type()); ok {
		vc.assert(mkAnd(mkLe(lo, t), mkLe(t, hi)))
	}
	vc.note("bit operation abstracted as uninterpreted function in " + fc.name + " (" + fc.e.pos(x.Pos()) + ")")
	return t
}

func (fc *FnCtx) convert(st *State, x *ssa.Convert) SV {
	vc := fc.vc
	src, dst := x.X.Type().Underlying(), x.Type().Underlying()
	sb, sok := src.(*types.Basic)
	db, dok := dst.(*types.Basic)
	if sok && dok {
		sInt := sb.Info()&types.IsInteger != 0
		dInt := db.Info()&types.IsInteger != 0
		sFlt := sb.Info()&types.IsFloat != 0
		switch {
		case sInt && dInt:
			return SV{Typ: x.Type(), T: []Term{wrapTo(fc.val(x.X).one(), x.Type())}}
		case sFlt && dInt:
			vc.declUF("uf_f2i", []Sort{SInt}, SInt)
			vc.usedUF["f2i"] = true
			vc.note("float-to-integer conversion modelled by f2i, exact on whole seconds (" + fc.e.pos(x.Pos()) + ")")
			return SV{Typ: x.Type(), T: []Term{wrapTo(mkApp("uf_f2i", fc.val(x.X).one()), x.Type())}}
		}
	}
	if len(fc.e.shape(x.X.Type()).Leaves) == len(fc.e.shape(x.Type()).Leaves) && !(sok && dok) {
		return SV{Typ: x.Type(), T: fc.val(x.X).T}
	}
	// string <-> []byte etc.: arbitrary value
	vc.note("conversion " + x.X.Type().String() + " -> " + x.Type().String() + " havocked in " + fc.name)
	return vc.havoc(x.Type(), "conv", st.alloc)
}

func pointerShaped(t types.Type) bool {
	switch t.Underlying().(type) {
	case *types.Pointer, *types.Chan, *types.Map, *types.Signature:
		return true
	}
	return false
}

func (fc *FnCtx) boxLV(ref Term, T types.Type) *LV {
	return &LV{Col: "box:" + fc.e.typeName(T), Ref: ref, Typ: T}
}

func (fc *FnCtx) makeInterface(st *State, v SV, T types.Type, it types.Type) SV {
	vc := fc.vc
	if isIface(T) {
		return SV{Typ: it, T: v.T}
	}
	tag := num(int64(fc.e.tagOf(T)))
	sh := fc.e.shape(T)
	switch {
	case pointerShaped(T):
		return SV{Typ: it, T: []Term{tag, v.one()}}
	case len(sh.Leaves) == 0:
		return SV{Typ: it, T: []Term{tag, "0"}}
	case len(sh.Leaves) == 1 && sh.Leaves[0].Sort == SInt:
		return SV{Typ: it, T: []Term{tag, v.one()}}
	case len(sh.Leaves) == 1 && sh.Leaves[0].Sort == SBool:
		return SV{Typ: it, T: []Term{tag, mkIte(v.one(), "1", "0")}}
	}
	r := fc.newRef(st, "box")
	vc.store(st, fc.boxLV(r, T), v)
	return SV{Typ: it, T: []Term{tag, r}}
}

func (fc *FnCtx) unbox(st *State, val Term, T types.Type) SV {
	sh := fc.e.shape(T)
	switch {
	case pointerShaped(T):
		return SV{Typ: T, T: []Term{val}}
	case len(sh.Leaves) == 0:
		return SV{Typ: T}
	case len(sh.Leaves) == 1 && sh.Leaves[0].Sort == SInt:
		v := SV{Typ: T, T: []Term{val}}
		return v
	case len(sh.Leaves) == 1 && sh.Leaves[0].Sort == SBool:
		return SV{Typ: T, T: []Term{mkEq(val, "1")}}
	}
	return fc.vc.load(st, fc.boxLV(val, T))
}

// implementsTerm: does the dynamic type with this tag implement interface it?
func (fc *FnCtx) implementsTerm(tag Term, it types.Type) Term {
	e := fc.e
	iface := it.Underlying().(*types.Interface)
	var yes, known []Term
	for _, T := range e.knownTagTypes() {
		id := num(int64(e.tagOf(T)))
		known = append(known, mkEq(tag, id))
		if types.Implements(T, iface) {
			yes = append(yes, mkEq(tag, id))
		}
	}
	if e.sealedTags(it) != nil {
		return mkOr(yes...)
	}
	uf := "impl_" + sanitize(e.typeName(it))
	if len(uf) > 60 {
		uf = fmt.Sprintf("impl_anon%d", e.strID("iface:"+e.typeName(it)))
	}
	fc.vc.declUF(uf, []Sort{SInt}, SBool)
	foreign := mkAnd(mkNot(mkOr(known...)), mkNot(mkEq(tag, "0")), mkApp(uf, tag))
	return mkOr(append(yes, foreign)...)
}

func (fc *FnCtx) typeAssert(st *State, x *ssa.TypeAssert) {
	vc := fc.vc
	iv := fc.val(x.X)
	T := x.AssertedType
	var ok Term
	var v SV
	if isIface(T) {
		ok = mkAnd(mkNot(mkEq(iv.tag(), "0")), fc.implementsTerm(iv.tag(), T))
		v = SV{Typ: T, T: iv.T}
	} else {
		ok = mkEq(iv.tag(), num(int64(fc.e.tagOf(T))))
		v = fc.unbox(st, iv.ival(), T)
	}
	if !x.CommaOk {
		fc.safety(st, "type-assert", x.Pos(), fc.srcOf(x.Pos(), "assert"), ok)
		fc.vals[x] = v
		return
	}
	okc := vc.define("ok", SBool, ok)
	z := vc.zero(T)
	out := SV{Typ: x.Type()}
	for i := range v.T {
		out.T = append(out.T, mkIte(okc, v.T[i], z.T[i]))
	}
	out.T = append(out.T, okc)
	fc.vals[x] = out
}

func (fc *FnCtx) sliceOp(st *State, x *ssa.Slice) {
	vc := fc.vc
	src := fc.srcOf(x.Pos(), "slice")
	var arr, off, ln, cp Term
	switch u := x.X.Type().Underlying().(type) {
	case *types.Slice:
		s := fc.val(x.X)
		arr, off, ln, cp = s.arr(), s.off(), s.ln(), s.cp()
	case *types.Pointer:
		at := u.Elem().Underlying().(*types.Array)
		fc.nilCheck(st, x.X, x.Pos())
		base := fc.lvOf(x.X)
		if !base.Elem || base.HasIdx {
			fc.unsupported("slicing an array embedded in a struct")
			fc.vals[x] = vc.havoc(x.Type(), "sl", st.alloc)
			return
		}
		arr, off, ln, cp = base.Ref, "0", num(at.Len()), num(at.Len())
	default:
		// string slicing
		fc.vals[x] = vc.havoc(x.Type(), "strslice", st.alloc)
		return
	}
	lo, hi, mx := "0", ln, cp
	if x.Low != nil {
		lo = fc.val(x.Low).one()
	}
	if x.High != nil {
		hi = fc.val(x.High).one()
	}
	if x.Max != nil {
		mx = fc.val(x.Max).one()
	}
	fc.safety(st, "slice", x.Pos(), src, mkAnd(mkLe("0", lo), mkLe(lo, hi), mkLe(hi, mx), mkLe(mx, cp)))
	out := SV{Typ: x.Type(), T: []Term{arr, vc.define("off", SInt, mkAdd(off, lo)), vc.define("len", SInt, mkSub(hi, lo)), vc.define("cap", SInt, mkSub(mx, lo))}}
	// slicing a nil slice yields nil: arr stays 0, off stays 0 (lo must be 0)
	fc.vals[x] = out
}

// globalValue: package-level variables that are only written by init are
// treated as constants (error sentinels get distinct non-nil identities).
func (fc *FnCtx) globalValue(st *State, g *ssa.Global) (SV, bool) {
	T := pointee(g.Type())
	if !fc.e.immutableGlobal(g) {
		return SV{}, false
	}
	sh := fc.e.shape(T)
	out := SV{Typ: T}
	base := "gv_" + sanitize(g.Name())
	for _, l := range sh.Leaves {
		n := base
		if l.Path != "" {
			n += "_" + sanitize(l.Path)
		}
		if !fc.vc.ufDecl[n] {
			fc.vc.ufDecl[n] = true
			fc.vc.declare(n, l.Sort)
		}
		out.T = append(out.T, n)
	}
	if isIface(T) {
		// sentinel errors: non-nil, *errors.errorString, identity = global id
		fc.vc.assert(mkAnd(mkEq(out.tag(), num(int64(fc.e.tagOfName("*errors.errorString")))), mkEq(out.ival(), num(int64(fc.e.globalID(g))))))
	} else {
		fc.vc.assert(fc.vc.wf(out, "alloc0"))
	}
	return out, true
}

func (e *Engine) immutableGlobal(g *ssa.Global) bool {
	if g.Pkg != e.spkg {
		return true // foreign package variables (io.ErrClosedPipe ...): treated as constants
	}
	if v, ok := e.immutG[g]; ok {
		return v
	}
	imm := true
	for _, fn := range e.funcs {
		for _, b := range fn.Blocks {
			for _, in := range b.Instrs {
				if s, ok := in.(*ssa.Store); ok && s.Addr == g {
					imm = false
				}
			}
		}
	}
	if e.immutG == nil {
		e.immutG = map[*ssa.Global]bool{}
	}
	e.immutG[g] = imm
	return imm
}
