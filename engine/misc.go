package main

import (
	"go/types"
	"time"
)

func (e *Engine) registerPackageTags() {
	scope := e.pkg.Types.Scope()
	for _, n := range scope.Names() {
		tn, ok := scope.Lookup(n).(*types.TypeName)
		if !ok || tn.IsAlias() {
			continue
		}
		T := tn.Type()
		if _, isIface := T.Underlying().(*types.Interface); isIface {
			continue
		}
		if nt, ok := T.(*types.Named); ok && nt.TypeParams().Len() > 0 {
			continue
		}
		e.tagOf(T)
		e.tagOf(types.NewPointer(T))
	}
}

var _ = time.Now
