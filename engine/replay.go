package main

// Counterexample replay on the real code (filled in incrementally).

func (e *Engine) replayModel(verif, prop, unit, obName, model string, rec map[string]interface{}) (bool, string) {
	return false, ""
}
