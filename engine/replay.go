package main

// Counterexample replay on the real code: model values of the parameters are
// turned into an in-package Go test that calls the real function (injected with
// `go test -overlay`, nothing is written into /repo). A safety obligation is
// reproduced by a panic; an ensures/assert obligation by a hand-written Go
// oracle from spec/replay_templates.json when one exists.

import (
	"encoding/json"
	"fmt"
	"go/types"
	"os"
	"os/exec"
	"path/filepath"
	"regexp"
	"strconv"
	"strings"
)

type ReplayTemplate struct {
	Setup   string            `json:"setup"`   // Go statements before the call
	Call    string            `json:"call"`    // Go statement(s) performing the call; {param} placeholders
	Oracles map[string]string `json:"oracles"` // obligation label -> Go bool expression that must hold
}

// modelKeys lists, in order, the terms whose values are requested from the
// solver for replay: scalar parameters, slice headers, the first bytes of byte
// slices, and one level of struct fields behind pointer parameters.
type modelKey struct {
	Key  string
	Term string
}

func (vc *VC) modelKeys(e *Engine, unit string) []modelKey {
	fn := e.funcs[unit]
	var out []modelKey
	if fn == nil {
		return out
	}
	declared := map[string]string{} // "p_name_leaf" -> full declared name
	for _, d := range vc.decls {
		f := strings.Fields(d)
		if len(f) >= 3 && f[2] == "()" {
			if k := strings.LastIndex(f[1], "!"); k > 0 {
				declared[f[1][:k]] = f[1]
			}
		}
	}
	byteHeap := "H0_" + sanitize("[]uint8")
	hasByteHeap := vc.colDecl["[]uint8"]
	addBytes := func(key, arr, off string) {
		if !hasByteHeap {
			return
		}
		for k := 0; k < 96; k++ {
			out = append(out, modelKey{fmt.Sprintf("%s[%d]", key, k), fmt.Sprintf("(select (select %s %s) (+ %s %d))", byteHeap, arr, off, k)})
		}
	}
	for _, p := range fn.Params {
		base := "p_" + sanitize(p.Name()) + "_"
		switch u := p.Type().Underlying().(type) {
		case *types.Slice:
			arr, off, ln := declared[base+"arr"], declared[base+"off"], declared[base+"len"]
			if arr == "" {
				continue
			}
			out = append(out, modelKey{p.Name() + ".len", ln}, modelKey{p.Name() + ".arr", arr})
			if b, ok := u.Elem().Underlying().(*types.Basic); ok && b.Kind() == types.Uint8 {
				addBytes(p.Name(), arr, off)
			}
		case *types.Pointer:
			ptr := declared[base]
			if ptr == "" {
				continue
			}
			out = append(out, modelKey{p.Name(), ptr})
			st, ok := u.Elem().Underlying().(*types.Struct)
			if !ok || e.isOpaqueStruct(u.Elem()) {
				continue
			}
			lv := e.rootLV(ptr, u.Elem())
			for i := 0; i < st.NumFields(); i++ {
				f := st.Field(i)
				for _, l := range e.shape(f.Type()).Leaves {
					if l.InArr {
						continue
					}
					col := lv.Col + "." + joinPath(f.Name(), l.Path)
					if !vc.colDecl[col] {
						continue
					}
					out = append(out, modelKey{p.Name() + "." + joinPath(f.Name(), l.Path), fmt.Sprintf("(select H0_%s %s)", sanitize(col), ptr)})
				}
				if sl, ok := f.Type().Underlying().(*types.Slice); ok {
					if b, ok := sl.Elem().Underlying().(*types.Basic); ok && b.Kind() == types.Uint8 {
						col := lv.Col + "." + f.Name()
						if vc.colDecl[col+".arr"] {
							addBytes(p.Name()+"."+f.Name(), fmt.Sprintf("(select H0_%s %s)", sanitize(col+".arr"), ptr), fmt.Sprintf("(select H0_%s %s)", sanitize(col+".off"), ptr))
						}
					}
				}
			}
		default:
			if n := declared[base]; n != "" {
				out = append(out, modelKey{p.Name(), n})
			}
		}
	}
	return out
}

// parseModelOrdered parses "((t1 v1) (t2 v2) ...)" and returns the values in order.
func parseModelOrdered(model string) []string {
	var vals []string
	depth := 0
	start := -1
	s := model
	for i := 0; i < len(s); i++ {
		switch s[i] {
		case '(':
			depth++
			if depth == 2 {
				start = i
			}
		case ')':
			if depth == 2 && start >= 0 {
				pair := s[start+1 : i]
				// value = last top-level element of the pair
				vals = append(vals, lastElem(pair))
				start = -1
			}
			depth--
		}
	}
	return vals
}

func lastElem(pair string) string {
	pair = strings.TrimSpace(pair)
	if strings.HasSuffix(pair, ")") {
		d := 0
		for i := len(pair) - 1; i >= 0; i-- {
			switch pair[i] {
			case ')':
				d++
			case '(':
				d--
				if d == 0 {
					return pair[i:]
				}
			}
		}
	}
	if k := strings.LastIndexAny(pair, " \n\t"); k >= 0 {
		return pair[k+1:]
	}
	return pair
}

func modelInt(v string) (int64, bool) {
	neg := false
	v = strings.TrimSpace(v)
	if strings.HasPrefix(v, "(- ") {
		neg = true
		v = strings.TrimSuffix(v[3:], ")")
	}
	n, err := strconv.ParseInt(strings.TrimSpace(v), 10, 64)
	if err != nil {
		return 0, false
	}
	if neg {
		n = -n
	}
	return n, true
}

func bytesLiteral(m map[string]string, key string, ln int64) string {
	var bytes []string
	last := -1
	for k := 0; k < int(ln) && k < 96; k++ {
		v, ok := m[fmt.Sprintf("%s[%d]", key, k)]
		n, ok2 := modelInt(v)
		if !ok || !ok2 || n < 0 || n > 255 {
			n = 0
		}
		if n != 0 {
			last = k
		}
		bytes = append(bytes, fmt.Sprint(n))
	}
	bytes = bytes[:last+1]
	return fmt.Sprintf("append([]byte{%s}, make([]byte, %d)...)", strings.Join(bytes, ","), int(ln)-len(bytes))
}

// paramLiteral renders a Go expression for parameter p from the model.
func (e *Engine) paramLiteral(name string, T types.Type, m map[string]string) (string, bool) {
	bare := func(t types.Type) string { return types.TypeString(t, func(p *types.Package) string { return "" }) }
	switch u := T.Underlying().(type) {
	case *types.Basic:
		v, ok := m[name]
		if !ok {
			return "", false
		}
		switch {
		case u.Info()&types.IsBoolean != 0:
			return strings.TrimSpace(v), true
		case u.Info()&types.IsInteger != 0:
			n, ok := modelInt(v)
			if !ok {
				return "", false
			}
			return fmt.Sprintf("%s(%d)", bare(T), n), true
		}
	case *types.Slice:
		if b, ok := u.Elem().Underlying().(*types.Basic); ok && b.Kind() == types.Uint8 {
			ln, ok := modelInt(m[name+".len"])
			if !ok || ln < 0 || ln > 1<<22 {
				return "", false
			}
			if a, ok := modelInt(m[name+".arr"]); ok && a == 0 && ln == 0 {
				return "[]byte(nil)", true
			}
			return bytesLiteral(m, name, ln), true
		}
	case *types.Pointer:
		st, ok := u.Elem().Underlying().(*types.Struct)
		if !ok || e.isOpaqueStruct(u.Elem()) {
			return "", false
		}
		var fields []string
		for i := 0; i < st.NumFields(); i++ {
			f := st.Field(i)
			switch fu := f.Type().Underlying().(type) {
			case *types.Basic:
				if v, ok := m[name+"."+f.Name()]; ok {
					if fu.Info()&types.IsBoolean != 0 {
						fields = append(fields, f.Name()+": "+strings.TrimSpace(v))
					} else if n, ok := modelInt(v); ok && fu.Info()&types.IsInteger != 0 {
						fields = append(fields, fmt.Sprintf("%s: %d", f.Name(), n))
					}
				}
			case *types.Slice:
				if b, ok := fu.Elem().Underlying().(*types.Basic); ok && b.Kind() == types.Uint8 {
					if ln, ok := modelInt(m[name+"."+f.Name()+".len"]); ok && ln >= 0 && ln < 1<<22 {
						fields = append(fields, f.Name()+": "+bytesLiteral(m, name+"."+f.Name(), ln))
					}
				}
			}
		}
		return fmt.Sprintf("&%s{%s}", bare(u.Elem()), strings.Join(fields, ", ")), true
	}
	return "", false
}

func (e *Engine) replayModel(verif, prop, unit, obName, model string, rec map[string]interface{}) (bool, string) {
	fn := e.funcs[unit]
	if fn == nil || model == "" {
		return false, ""
	}
	m := map[string]string{}
	if err := json.Unmarshal([]byte(model), &m); err != nil {
		return false, "model not understood"
	}
	var tmpls map[string]*ReplayTemplate
	if data, err := os.ReadFile(filepath.Join(verif, "spec", "replay_templates.json")); err == nil {
		json.Unmarshal(data, &tmpls)
	}
	t := tmpls[unit]
	lits := map[string]string{}
	allOK := true
	_ = allOK
	for _, p := range fn.Params {
		lit, ok := e.paramLiteral(p.Name(), p.Type(), m)
		if !ok {
			allOK = false
			continue
		}
		lits[p.Name()] = lit
	}
	rec["inputs"] = lits
	if t == nil {
		// default template: the function or method called with the rendered parameters
		// (a receiver the model does not describe is the zero value of its type)
		if fn.Parent() != nil || fn.TypeParams().Len() > 0 {
			return false, "no replay template for " + unit
		}
		var args []string
		callee := fn.Name()
		setup0 := ""
		for i, p := range fn.Params {
			lit, ok := lits[p.Name()]
			if i == 0 && fn.Signature.Recv() != nil {
				if !ok {
					pt, isPtr := p.Type().Underlying().(*types.Pointer)
					if !isPtr {
						return false, "no replay template for " + unit
					}
					lit = "new(" + types.TypeString(pt.Elem(), func(*types.Package) string { return "" }) + ")"
				}
				setup0 = "cbvRecv := " + lit
				callee = "cbvRecv." + fn.Name()
				continue
			}
			if !ok {
				return false, "the model does not determine parameter " + p.Name() + " of " + unit
			}
			args = append(args, lit)
		}
		t = &ReplayTemplate{Setup: setup0, Call: callee + "(" + strings.Join(args, ", ") + ")"}
	}
	call := t.Call
	setup := t.Setup
	for k, v := range lits {
		call = strings.ReplaceAll(call, "{"+k+"}", v)
		setup = strings.ReplaceAll(setup, "{"+k+"}", v)
	}
	if strings.Contains(call, "{") && regexp.MustCompile(`\{[a-zA-Z_]\w*\}`).MatchString(call) {
		return false, "model does not determine every input of the replay template"
	}
	// oracle for this obligation (label is between '[' and '@' or ']')
	oracle := ""
	label := obName
	if k := strings.Index(obName, "["); k >= 0 {
		label = obName[k+1:]
		label = strings.TrimSuffix(label, "]")
		if j := strings.Index(label, "@"); j >= 0 {
			label = label[:j]
		}
	}
	for k, v := range t.Oracles {
		if strings.Contains(label, k) {
			oracle = v
			for pk, pv := range lits {
				oracle = strings.ReplaceAll(oracle, "{"+pk+"}", pv)
			}
		}
	}
	isSafety := strings.Contains(obName, "#safety[") || strings.Contains(obName, "#requires[")
	if oracle == "" && !isSafety && strings.Contains(obName, "#ensures[") {
		// compile the postcondition itself into a Go oracle
		if c := e.spec.Contracts[unit]; c != nil {
			su, ca, or, why := e.compileOracle(fn, c, label, lits)
			if why != "" {
				rec["oracle_compilation"] = "postcondition not executable: " + why
			} else {
				setup, call, oracle = su, ca, or
				rec["oracle_compilation"] = "postcondition compiled to Go from the contract"
			}
		}
	}
	if oracle == "" && !isSafety {
		return false, "no executable oracle for this obligation"
	}
	if oracle == "" {
		oracle = "true"
	}
	src := fmt.Sprintf(`package corebgp

import (
	"errors"
	"fmt"
	"reflect"
	"testing"
)

var _ = fmt.Sprint
var _ = errors.New
var _ = reflect.ValueOf
%s
func TestCbvReplay(t *testing.T) {
	cbvCalled := false
	defer func() {
		if r := recover(); r != nil {
			if cbvCalled {
				fmt.Println("CBV-REPLAY: ORACLE-PANIC:", r)
			} else {
				fmt.Println("CBV-REPLAY: PANIC:", r)
			}
		}
	}()
	%s
	%s
	cbvCalled = true
	if !(%s) {
		fmt.Println("CBV-REPLAY: ORACLE-VIOLATED")
		return
	}
	fmt.Println("CBV-REPLAY: OK")
}
`, oracleHelpers, setup, call, oracle)
	dir, err := os.MkdirTemp("", "cbvreplay")
	if err != nil {
		return false, err.Error()
	}
	defer os.RemoveAll(dir)
	testFile := filepath.Join(dir, "zz_cbv_replay_test.go")
	os.WriteFile(testFile, []byte(src), 0o644)
	ov := map[string]map[string]string{"Replace": {filepath.Join(e.repo, "zz_cbv_replay_test.go"): testFile}}
	ob, _ := json.Marshal(ov)
	ovFile := filepath.Join(dir, "ov.json")
	os.WriteFile(ovFile, ob, 0o644)
	cmd := exec.Command("sh", "-c", fmt.Sprintf("cd %s && ulimit -v 8000000; go test -overlay %s -vet=off -v -count=1 -timeout 60s -run '^TestCbvReplay$' . 2>&1 | tail -40", e.repo, ovFile))
	cmd.Env = append(os.Environ(), "GOFLAGS=-mod=mod", "GOPROXY=off", "GOSUMDB=off", "GOTOOLCHAIN=local")
	out, _ := cmd.CombinedOutput()
	rec["replay_test"] = src
	rec["replay_output"] = string(out)
	s := string(out)
	switch {
	case strings.Contains(s, "CBV-REPLAY: ORACLE-PANIC"):
		return false, "the oracle could not be evaluated on the model's input"
	case strings.Contains(s, "CBV-REPLAY: PANIC"):
		return isSafety || true, "the real code panics on the model's input"
	case strings.Contains(s, "CBV-REPLAY: ORACLE-VIOLATED"):
		return true, "the real code violates the obligation's oracle on the model's input"
	case strings.Contains(s, "CBV-REPLAY: OK"):
		return false, "the real code behaves correctly on the model's input (candidate counterexample not confirmed)"
	}
	return false, "replay did not run: " + firstLines(s, 3)
}
