package main

import (
	"fmt"
	"go/ast"
	"go/printer"
	"go/token"
	"go/types"
	"os"
	"path/filepath"
	"sort"
	"strings"

	"golang.org/x/tools/go/ast/astutil"
	"golang.org/x/tools/go/packages"
	"golang.org/x/tools/go/ssa"
	"golang.org/x/tools/go/ssa/ssautil"
)

type Engine struct {
	repo   string
	pkg    *packages.Package
	prog   *ssa.Program
	spkg   *ssa.Package
	fset   *token.FileSet
	funcs  map[string]*ssa.Function // short name -> function
	names  map[*ssa.Function]string
	shapes map[string]*Shape
	spec   *SpecSet

	tags     map[string]int // dynamic type name -> tag
	tagList  []types.Type
	strIDs   map[string]int
	immutG   map[*ssa.Global]bool
	errTypes []types.Type

	timeoutMs int
	verbose   bool
	findings  []Finding
	missingContracts []string
	closedFields     map[string]bool
	specFields       map[string]bool
	renamed          map[string]string // contract name -> name of the function it was re-bound to
}

const pkgPath = "github.com/jwhited/corebgp"

func loadEngine(repo string) (*Engine, error) {
	cfg := &packages.Config{
		Mode:       packages.LoadAllSyntax,
		Dir:        repo,
		BuildFlags: []string{"-tags=verif"},
		Env:        append(os.Environ(), "GOFLAGS=-mod=mod", "GOPROXY=off", "GOSUMDB=off", "GOTOOLCHAIN=local"),
	}
	pkgs, err := packages.Load(cfg, ".")
	if err != nil {
		return nil, err
	}
	if len(pkgs) != 1 {
		return nil, fmt.Errorf("expected one package, got %d", len(pkgs))
	}
	if len(pkgs[0].Errors) > 0 {
		return nil, fmt.Errorf("package errors: %v", pkgs[0].Errors)
	}
	prog, spkgs := ssautil.AllPackages(pkgs, ssa.GlobalDebug)
	prog.Build()
	e := &Engine{
		repo: repo, pkg: pkgs[0], prog: prog, spkg: spkgs[0], fset: pkgs[0].Fset,
		funcs: map[string]*ssa.Function{}, names: map[*ssa.Function]string{},
		shapes: map[string]*Shape{}, tags: map[string]int{}, strIDs: map[string]int{},
		timeoutMs: 10000,
	}
	e.enumerate()
	return e, nil
}

func (e *Engine) enumerate() {
	var add func(fn *ssa.Function)
	add = func(fn *ssa.Function) {
		if fn == nil || fn.Blocks == nil {
			return
		}
		n := e.shortName(fn)
		if _, dup := e.funcs[n]; dup {
			return
		}
		e.funcs[n] = fn
		e.names[fn] = n
		for _, af := range fn.AnonFuncs {
			add(af)
		}
	}
	scope := e.pkg.Types.Scope()
	for _, n := range scope.Names() {
		switch obj := scope.Lookup(n).(type) {
		case *types.Func:
			add(e.prog.FuncValue(obj))
		case *types.TypeName:
			if named, ok := obj.Type().(*types.Named); ok {
				for i := 0; i < named.NumMethods(); i++ {
					add(e.prog.FuncValue(named.Method(i)))
				}
			}
		}
	}
}

// shortName: "(*Notification).encode" -> "Notification.encode", generic brackets
// stripped, closures keep their "$k" suffix.
func (e *Engine) shortName(fn *ssa.Function) string {
	if n, ok := e.names[fn]; ok {
		return n
	}
	var base string
	if fn.Parent() != nil {
		// closure: go/ssa names it <top-level name>$i$j...; keep that chain
		root := fn
		for root.Parent() != nil {
			root = root.Parent()
		}
		rs := e.shortName(root) // e.g. "fsm.established"
		own := fn.Name()        // e.g. "established$2$1"
		k := strings.Index(own, "$")
		suffix := ""
		if k >= 0 {
			suffix = own[k:]
		}
		return rs + suffix
	}
	name := fn.Name()
	if k := strings.Index(name, "["); k >= 0 {
		name = name[:k]
	}
	if recv := fn.Signature.Recv(); recv != nil {
		t := recv.Type()
		if p, ok := t.(*types.Pointer); ok {
			t = p.Elem()
		}
		tn := ""
		if n, ok := t.(*types.Named); ok {
			tn = n.Obj().Name()
		}
		base = tn + "." + name
	} else {
		base = name
	}
	return base
}

func (e *Engine) funcNames() []string {
	var out []string
	for n := range e.funcs {
		out = append(out, n)
	}
	sort.Strings(out)
	return out
}

// loadSpecs reads every contracts_*_verif.go / lemmas_verif.go in the repo and
// the extern contracts shipped with the engine.
func (e *Engine) loadSpecs(externDir string) error {
	e.spec = newSpecSet()
	files, _ := filepath.Glob(filepath.Join(e.repo, "*_verif.go"))
	sort.Strings(files)
	for _, f := range files {
		if err := e.spec.load(f); err != nil {
			return err
		}
	}
	ex, _ := filepath.Glob(filepath.Join(externDir, "*.spec"))
	sort.Strings(ex)
	for _, f := range ex {
		if err := e.spec.load(f); err != nil {
			return err
		}
	}
	var gone []string
	for name := range e.spec.Contracts {
		if _, ok := e.funcs[name]; !ok {
			gone = append(gone, name)
		}
	}
	sort.Strings(gone)
	e.renamed = map[string]string{}
	e.rebindClosures()
	gone = gone[:0]
	for name := range e.spec.Contracts {
		if _, ok := e.funcs[name]; !ok {
			gone = append(gone, name)
		}
	}
	sort.Strings(gone)
	for _, name := range gone {
		// the contracted function no longer exists. If exactly one function without a
		// contract has the same receiver type, the same parameter names in the same
		// order and the same number of results, it is taken to be the renamed
		// function (contracts list their parameter names); otherwise every property
		// whose cone lists the contract reports a missing anchor.
		c := e.spec.Contracts[name]
		if nn := e.renameCandidate(name, c); nn != "" {
			e.spec.Contracts[nn] = c
			delete(e.spec.Contracts, name)
			c.Name = nn
			e.renamed[name] = nn
			continue
		}
		e.missingContracts = append(e.missingContracts, name)
	}
	sort.Strings(e.missingContracts)
	return nil
}

func (e *Engine) pos(p token.Pos) string {
	if !p.IsValid() {
		return "-"
	}
	ps := e.fset.Position(p)
	return fmt.Sprintf("%s:%d", filepath.Base(ps.Filename), ps.Line)
}

// srcText returns the source text of the smallest expression enclosing pos that
// is of one of the wanted kinds (used to build stable obligation names).
func (e *Engine) srcText(p token.Pos, want func(ast.Node) bool) string {
	if !p.IsValid() {
		return ""
	}
	for _, f := range e.pkg.Syntax {
		if f.Pos() <= p && p < f.End() {
			path, _ := astutil.PathEnclosingInterval(f, p, p+1)
			for _, n := range path {
				if want(n) {
					var sb strings.Builder
					printer.Fprint(&sb, e.fset, n)
					s := strings.Join(strings.Fields(sb.String()), " ")
					if len(s) > 60 {
						s = s[:57] + "..."
					}
					return s
				}
			}
		}
	}
	return ""
}

func (e *Engine) tagOf(t types.Type) int {
	n := e.typeName(t)
	if id, ok := e.tags[n]; ok {
		return id
	}
	id := len(e.tags) + 1
	e.tags[n] = id
	e.tagList = append(e.tagList, t)
	return id
}

func (e *Engine) strID(s string) int {
	if id, ok := e.strIDs[s]; ok {
		return id
	}
	id := len(e.strIDs) + 1
	e.strIDs[s] = id
	return id
}

// pkgConst looks up a package-level constant by name.
func (e *Engine) pkgConst(name string) (types.Object, bool) {
	obj := e.pkg.Types.Scope().Lookup(name)
	if obj == nil {
		return nil, false
	}
	return obj, true
}

func (e *Engine) lookupType(name string) types.Type {
	ptr := 0
	for strings.HasPrefix(name, "*") {
		ptr++
		name = name[1:]
	}
	var t types.Type
	if k := strings.Index(name, "."); k >= 0 {
		// foreign type pkg.Name
		for _, imp := range e.pkg.Types.Imports() {
			if imp.Name() == name[:k] {
				if o := imp.Scope().Lookup(name[k+1:]); o != nil {
					t = o.Type()
				}
			}
		}
	} else if o := e.pkg.Types.Scope().Lookup(name); o != nil {
		t = o.Type()
	} else if o := types.Universe.Lookup(name); o != nil {
		t = o.Type()
	}
	if t == nil {
		return nil
	}
	for ; ptr > 0; ptr-- {
		t = types.NewPointer(t)
	}
	return t
}

// rebindClosures: closures are named by their position in the enclosing function
// (`Serve$2`), so moving a function literal past another one renumbers them. When the
// closure contracts of a function do not all fit the closures they name (parameter names
// and result count of the header), but there is exactly one way to assign every one of
// them to a distinct closure of that function that it does fit, the contracts follow
// (thread roots and unit lists are translated through e.renamed). Otherwise nothing is
// changed and the mismatch is reported the usual way.
func (e *Engine) rebindClosures() {
	fits := func(c *Contract, fn *ssa.Function) bool {
		if fn == nil || len(fn.Params) != len(c.Params) {
			return false
		}
		for i, p := range fn.Params {
			if p.Name() != c.Params[i] {
				return false
			}
		}
		if fn.Signature.Results().Len() != len(c.Results) {
			return false
		}
		// every captured variable the contract declares must be captured
		fv := map[string]bool{}
		for _, v := range fn.FreeVars {
			fv[v.Name()] = true
		}
		for _, l := range c.Locals {
			if _, isFree := e.closureFreeVarOf(c.Name, l.Name); isFree && !fv[l.Name] {
				return false
			}
		}
		return true
	}
	byParent := map[string][]string{}
	for name, c := range e.spec.Contracts {
		if c.Extern || c.Callback {
			continue
		}
		if k := strings.LastIndex(name, "$"); k > 0 {
			byParent[name[:k]] = append(byParent[name[:k]], name)
		}
	}
	var parents []string
	for p := range byParent {
		parents = append(parents, p)
	}
	sort.Strings(parents)
	for _, parent := range parents {
		cs := byParent[parent]
		sort.Strings(cs)
		ok := true
		for _, n := range cs {
			if !fits(e.spec.Contracts[n], e.funcs[n]) {
				ok = false
			}
		}
		if ok {
			continue
		}
		var actual []string
		for n := range e.funcs {
			if strings.HasPrefix(n, parent+"$") && !strings.Contains(n[len(parent)+1:], "$") {
				actual = append(actual, n)
			}
		}
		sort.Strings(actual)
		// enumerate the injections contract -> closure that fit
		var found [][]string
		cur := make([]string, len(cs))
		used := map[string]bool{}
		var rec func(i int)
		rec = func(i int) {
			if len(found) > 1 {
				return
			}
			if i == len(cs) {
				found = append(found, append([]string{}, cur...))
				return
			}
			for _, a := range actual {
				if !used[a] && fits(e.spec.Contracts[cs[i]], e.funcs[a]) {
					used[a] = true
					cur[i] = a
					rec(i + 1)
					used[a] = false
				}
			}
		}
		rec(0)
		if len(found) != 1 {
			continue
		}
		moved := map[string]*Contract{}
		for i, n := range cs {
			moved[found[0][i]] = e.spec.Contracts[n]
			delete(e.spec.Contracts, n)
		}
		for i, n := range cs {
			nn := found[0][i]
			c := moved[nn]
			c.Name = nn
			e.spec.Contracts[nn] = c
			if nn != n {
				e.renamed[n] = nn
			}
		}
	}
	if len(e.renamed) == 0 {
		return
	}
	for _, td := range e.spec.Threads {
		for i, r := range td.Roots {
			if nn, ok := e.renamed[r]; ok {
				td.Roots[i] = nn
			}
		}
	}
}

// closureFreeVarOf: is `name` a captured variable of the closure the contract was written
// for? Decided from the contract text alone: a declared local that is not one of the header's
// parameters or results may be either a local or a captured variable, so only the variables
// of the *enclosing* function qualify.
func (e *Engine) closureFreeVarOf(closure, name string) (string, bool) {
	k := strings.LastIndex(closure, "$")
	if k < 0 {
		return "", false
	}
	parent := e.funcs[closure[:k]]
	if parent == nil {
		return "", false
	}
	for _, p := range parent.Params {
		if p.Name() == name {
			return name, true
		}
	}
	for _, b := range parent.Blocks {
		for _, in := range b.Instrs {
			if a, ok := in.(*ssa.Alloc); ok && a.Comment == name {
				return name, true
			}
		}
	}
	return "", false
}

// renameCandidate: see loadSpecs.
func (e *Engine) renameCandidate(old string, c *Contract) string {
	if c.Extern || c.Callback || len(c.Params) == 0 && !strings.Contains(old, ".") {
		// without declared parameter names there is nothing to recognise the function by
		if len(c.Params) == 0 {
			return ""
		}
	}
	if strings.Contains(old, "$") {
		return "" // closures are named by position
	}
	recv := ""
	if k := strings.Index(old, "."); k >= 0 {
		recv = old[:k+1]
	}
	var cands []string
	for n, fn := range e.funcs {
		if e.spec.Contracts[n] != nil || strings.Contains(n, "$") {
			continue
		}
		if recv != "" && !strings.HasPrefix(n, recv) || recv == "" && strings.Contains(n, ".") {
			continue
		}
		if len(fn.Params) != len(c.Params) || (len(c.Results) > 0 && fn.Signature.Results().Len() != len(c.Results)) {
			continue
		}
		same := true
		for i, p := range fn.Params {
			if p.Name() != c.Params[i] {
				same = false
			}
		}
		if same {
			cands = append(cands, n)
		}
	}
	if len(cands) == 1 {
		return cands[0]
	}
	return ""
}

// anchorAlias: the current name of a function an `at call OLD#k` anchor refers to.
func (e *Engine) anchorTargetMatches(target, actual string) bool {
	if target == actual {
		return true
	}
	for old, nn := range e.renamed {
		o, n := old, nn
		if k := strings.LastIndex(o, "."); k >= 0 {
			o = o[k+1:]
		}
		if k := strings.LastIndex(n, "."); k >= 0 {
			n = n[k+1:]
		}
		if o == target && n == actual {
			return true
		}
	}
	return false
}
