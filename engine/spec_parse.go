package main

// Parser for the contract language: //@ comment blocks keyed to functions, and
// a small expression grammar (Go-like, plus ==>, forall/exists, c ? a : b).

import (
	"fmt"
	"os"
	"path/filepath"
	"sort"
	"strconv"
	"strings"
)

// ---------- expression AST ----------

type Expr interface{}

type EIdent struct{ Name string }
type ENum struct{ V string }
type EBool struct{ V bool }
type EStr struct{ V string }
type EBin struct {
	Op   string
	L, R Expr
}
type EUn struct {
	Op string
	X  Expr
}
type ECall struct {
	Fn   string
	Args []Expr
}
type ESel struct {
	X    Expr
	Name string
}
type EIndex struct{ X, I Expr }
type ESlice struct{ X, Lo, Hi Expr }
type EQuant struct {
	Forall bool
	Vars   []string
	Body   Expr
}
type ECond struct{ C, A, B Expr }

func exprString(e Expr) string {
	switch x := e.(type) {
	case nil:
		return ""
	case *EIdent:
		return x.Name
	case *ENum:
		return x.V
	case *EBool:
		return fmt.Sprint(x.V)
	case *EStr:
		return strconv.Quote(x.V)
	case *EBin:
		return "(" + exprString(x.L) + " " + x.Op + " " + exprString(x.R) + ")"
	case *EUn:
		return x.Op + exprString(x.X)
	case *ECall:
		var as []string
		for _, a := range x.Args {
			as = append(as, exprString(a))
		}
		return x.Fn + "(" + strings.Join(as, ", ") + ")"
	case *ESel:
		return exprString(x.X) + "." + x.Name
	case *EIndex:
		return exprString(x.X) + "[" + exprString(x.I) + "]"
	case *ESlice:
		return exprString(x.X) + "[" + exprString(x.Lo) + ":" + exprString(x.Hi) + "]"
	case *EQuant:
		q := "exists"
		if x.Forall {
			q = "forall"
		}
		return "(" + q + " " + strings.Join(x.Vars, ", ") + " :: " + exprString(x.Body) + ")"
	case *ECond:
		return "(" + exprString(x.C) + " ? " + exprString(x.A) + " : " + exprString(x.B) + ")"
	}
	return "?"
}

// ---------- tokenizer ----------

type tok struct {
	kind string // "id", "num", "str", "op", "eof"
	text string
	pos  int
}

func tokenize(s string) ([]tok, error) {
	var out []tok
	i := 0
	ops := []string{"<==>", "==>", "::", "==", "!=", "<=", ">=", "&&", "||", "<<", ">>",
		"(", ")", "[", "]", ",", ":", "?", "+", "-", "*", "/", "%", "<", ">", "!", ".", "=", "&", "|", "#", "{", "}"}
	for i < len(s) {
		c := s[i]
		switch {
		case c == ' ' || c == '\t' || c == '\n':
			i++
		case c >= '0' && c <= '9':
			j := i
			if c == '0' && j+1 < len(s) && (s[j+1] == 'x' || s[j+1] == 'X') {
				j += 2
				for j < len(s) && strings.ContainsRune("0123456789abcdefABCDEF_", rune(s[j])) {
					j++
				}
			} else {
				for j < len(s) && (s[j] >= '0' && s[j] <= '9' || s[j] == '_') {
					j++
				}
			}
			out = append(out, tok{"num", s[i:j], i})
			i = j
		case c == '_' || c >= 'a' && c <= 'z' || c >= 'A' && c <= 'Z':
			j := i
			for j < len(s) && (s[j] == '_' || s[j] == '$' || s[j] >= 'a' && s[j] <= 'z' || s[j] >= 'A' && s[j] <= 'Z' || s[j] >= '0' && s[j] <= '9') {
				j++
			}
			out = append(out, tok{"id", s[i:j], i})
			i = j
		case c == '"':
			j := i + 1
			for j < len(s) && s[j] != '"' {
				j++
			}
			if j >= len(s) {
				return nil, fmt.Errorf("unterminated string at %d", i)
			}
			out = append(out, tok{"str", s[i+1 : j], i})
			i = j + 1
		default:
			matched := false
			for _, op := range ops {
				if strings.HasPrefix(s[i:], op) {
					out = append(out, tok{"op", op, i})
					i += len(op)
					matched = true
					break
				}
			}
			if !matched {
				return nil, fmt.Errorf("unexpected character %q at %d in %q", c, i, s)
			}
		}
	}
	out = append(out, tok{"eof", "", len(s)})
	return out, nil
}

type parser struct {
	toks []tok
	p    int
	src  string
}

func (p *parser) peek() tok { return p.toks[p.p] }
func (p *parser) next() tok { t := p.toks[p.p]; p.p++; return t }
func (p *parser) isOp(s string) bool {
	t := p.peek()
	return t.kind == "op" && t.text == s
}
func (p *parser) accept(s string) bool {
	if p.isOp(s) {
		p.p++
		return true
	}
	return false
}
func (p *parser) expect(s string) {
	if !p.accept(s) {
		panic(fmt.Errorf("expected %q at %d in %q (got %q)", s, p.peek().pos, p.src, p.peek().text))
	}
}

func parseExpr(s string) (e Expr, err error) {
	toks, err := tokenize(s)
	if err != nil {
		return nil, err
	}
	p := &parser{toks: toks, src: s}
	defer func() {
		if r := recover(); r != nil {
			if pe, ok := r.(error); ok {
				err = pe
				return
			}
			panic(r)
		}
	}()
	e = p.parseTop()
	if p.peek().kind != "eof" {
		return nil, fmt.Errorf("trailing input at %d in %q", p.peek().pos, s)
	}
	return e, nil
}

func (p *parser) parseTop() Expr {
	t := p.peek()
	if t.kind == "id" && (t.text == "forall" || t.text == "exists") {
		p.next()
		var vars []string
		for {
			v := p.next()
			if v.kind != "id" {
				panic(fmt.Errorf("quantifier variable expected in %q", p.src))
			}
			vars = append(vars, v.text)
			// optional type annotation (ignored: all bound variables are Int)
			if p.peek().kind == "id" && !p.isOp(",") && !p.isOp("::") {
				p.next()
			}
			if !p.accept(",") {
				break
			}
		}
		p.expect("::")
		body := p.parseTop()
		return &EQuant{Forall: t.text == "forall", Vars: vars, Body: body}
	}
	return p.parseCond()
}

func (p *parser) parseCond() Expr {
	c := p.parseIff()
	if p.accept("?") {
		a := p.parseTop()
		p.expect(":")
		b := p.parseTop()
		return &ECond{c, a, b}
	}
	return c
}

func (p *parser) parseIff() Expr {
	l := p.parseImp()
	for p.accept("<==>") {
		r := p.parseImp()
		l = &EBin{"<==>", l, r}
	}
	return l
}

func (p *parser) parseImp() Expr {
	l := p.parseOr()
	if p.accept("==>") {
		var r Expr
		t := p.peek()
		if t.kind == "id" && (t.text == "forall" || t.text == "exists") {
			r = p.parseTop()
		} else {
			r = p.parseImp()
		}
		return &EBin{"==>", l, r}
	}
	return l
}

func (p *parser) parseOr() Expr {
	l := p.parseAnd()
	for p.accept("||") {
		r := p.parseAnd()
		l = &EBin{"||", l, r}
	}
	return l
}

func (p *parser) parseAnd() Expr {
	l := p.parseCmp()
	for p.accept("&&") {
		var r Expr
		t := p.peek()
		if t.kind == "id" && (t.text == "forall" || t.text == "exists") {
			r = p.parseTop()
		} else {
			r = p.parseCmp()
		}
		l = &EBin{"&&", l, r}
	}
	return l
}

func (p *parser) parseCmp() Expr {
	l := p.parseAdd()
	for {
		t := p.peek()
		if t.kind == "op" && (t.text == "==" || t.text == "!=" || t.text == "<" || t.text == "<=" || t.text == ">" || t.text == ">=") {
			p.next()
			r := p.parseAdd()
			l = &EBin{t.text, l, r}
			continue
		}
		return l
	}
}

func (p *parser) parseAdd() Expr {
	l := p.parseMul()
	for {
		t := p.peek()
		if t.kind == "op" && (t.text == "+" || t.text == "-") {
			p.next()
			r := p.parseMul()
			l = &EBin{t.text, l, r}
			continue
		}
		return l
	}
}

func (p *parser) parseMul() Expr {
	l := p.parseUnary()
	for {
		t := p.peek()
		if t.kind == "op" && (t.text == "*" || t.text == "/" || t.text == "%") {
			p.next()
			r := p.parseUnary()
			l = &EBin{t.text, l, r}
			continue
		}
		return l
	}
}

func (p *parser) parseUnary() Expr {
	t := p.peek()
	if t.kind == "op" && (t.text == "!" || t.text == "-" || t.text == "*" || t.text == "&") {
		p.next()
		x := p.parseUnary()
		return &EUn{t.text, x}
	}
	return p.parsePostfix()
}

func (p *parser) parsePostfix() Expr {
	x := p.parsePrimary()
	for {
		switch {
		case p.accept("."):
			n := p.next()
			if n.kind != "id" {
				panic(fmt.Errorf("field name expected in %q", p.src))
			}
			x = &ESel{x, n.text}
		case p.accept("["):
			var lo, hi Expr
			if p.isOp(":") {
				p.next()
				if !p.isOp("]") {
					hi = p.parseTop()
				}
				p.expect("]")
				x = &ESlice{x, nil, hi}
				continue
			}
			lo = p.parseTop()
			if p.accept(":") {
				if !p.isOp("]") {
					hi = p.parseTop()
				}
				p.expect("]")
				x = &ESlice{x, lo, hi}
				continue
			}
			p.expect("]")
			x = &EIndex{x, lo}
		case p.isOp("("):
			id, ok := x.(*EIdent)
			if !ok {
				panic(fmt.Errorf("only named functions can be applied in %q", p.src))
			}
			p.next()
			var args []Expr
			if !p.isOp(")") {
				for {
					args = append(args, p.parseTop())
					if !p.accept(",") {
						break
					}
				}
			}
			p.expect(")")
			x = &ECall{id.Name, args}
		default:
			return x
		}
	}
}

func (p *parser) parsePrimary() Expr {
	t := p.next()
	switch t.kind {
	case "num":
		s := strings.ReplaceAll(t.text, "_", "")
		if strings.HasPrefix(s, "0x") || strings.HasPrefix(s, "0X") {
			v, err := strconv.ParseUint(s[2:], 16, 64)
			if err != nil {
				panic(err)
			}
			return &ENum{strconv.FormatUint(v, 10)}
		}
		return &ENum{s}
	case "str":
		return &EStr{t.text}
	case "id":
		switch t.text {
		case "true":
			return &EBool{true}
		case "false":
			return &EBool{false}
		}
		return &EIdent{t.text}
	case "op":
		if t.text == "(" {
			e := p.parseTop()
			p.expect(")")
			return e
		}
	}
	panic(fmt.Errorf("unexpected token %q at %d in %q", t.text, t.pos, p.src))
}

// ---------- contract structures ----------

type Clause struct {
	Label string
	E     Expr
	Src   string
	File  string
	Line  int
}

type LoopSpec struct {
	Invariants []Clause
	Decreases  *Clause
	Steps      []Clause
}

type AtSpec struct {
	Kind   string // "call", "return", "send", "recv"
	Target string // callee name / channel field; "" for return
	Ord    int    // ordinal, -1 = every occurrence
	What   string // "assert", "assume", "set"
	After  bool   // evaluated after the call (result bound) instead of before
	C      Clause
	SetLHS Expr // for "set": ghost variable or ghost field application
	Case   int  // for Kind "select": the case index
}

type LetDef struct {
	Name string
	E    Expr
}

type GhostVar struct {
	Name string
	Sort Sort
	Init Expr
}

type Contract struct {
	GhostVars []GhostVar
	Name     string
	Results  []string
	Requires []Clause
	Ensures  []Clause
	Modifies []Expr
	HasMod   bool
	Lets     []LetDef
	Ghosts   []LetDef // evaluated once at entry
	Loops    map[int]*LoopSpec
	Ats      []AtSpec
	Trusted  bool // contract is assumed; body not verified (listed in evidence)
	Extern   bool
	Callback bool
	Params   []string // for extern/callback: parameter names; for func: positional names (receiver first)
	Locals   []LocalDecl
	NoInline bool
	// PlainSends: number of blocking channel sends outside a `select` that the function (with
	// the helpers inlined into it) is declared to contain, each justified in the contract text
	PlainSends int
	File       string
	Line       int
}

// LocalDecl: `local NAME TYPE` — a local or captured variable the contract mentions.
type LocalDecl struct {
	Name, Type string
	Ord        int // position among the function's variables of that type (-1 unknown)
}

type PureFn struct {
	Name   string
	Params []string
	Body   Expr
	Src    string
}

type GhostField struct {
	Name string
	Sort Sort
	Of   string // struct type whose objects carry this ghost field ("" = keyed by something else)
}

type UFDecl struct {
	Name  string
	Arity int
	Sort  Sort
}

type SpecSet struct {
	Contracts map[string]*Contract
	Externs   map[string]*Contract
	Callbacks map[string]*Contract
	Pures     map[string]*PureFn
	Ghosts    map[string]*GhostField
	ChanInvs  map[string]*PureFn // "fsm.readerMsgCh" -> predicate over v
	Axioms    []Clause
	UFs       map[string]*UFDecl
	Guarded   map[string]string // "Server.peers" -> "Server.mu"
	Joins     map[string]string // "fsm.doneCh" -> ghost field cleared on the owner when a receive from it returns
	Delivers  map[string]bool   // joins-channels on which the goroutine sends exactly one value before closing
	Threads   []*ThreadDecl
	OwnedTypes []string
	Owners    map[string]*OwnerDecl
}

func newSpecSet() *SpecSet {
	return &SpecSet{
		Contracts: map[string]*Contract{}, Externs: map[string]*Contract{}, Callbacks: map[string]*Contract{},
		Pures: map[string]*PureFn{}, Ghosts: map[string]*GhostField{}, ChanInvs: map[string]*PureFn{},
		UFs: map[string]*UFDecl{}, Guarded: map[string]string{}, Joins: map[string]string{}, Delivers: map[string]bool{},
		Owners: map[string]*OwnerDecl{},
	}
}

type specLine struct {
	text string
	file string
	line int
}

// loadSpecFile extracts //@ lines from a Go file (or every non-comment line of a .spec file).
func loadSpecLines(path string) ([]specLine, error) {
	data, err := os.ReadFile(path)
	if err != nil {
		return nil, err
	}
	var out []specLine
	isGo := strings.HasSuffix(path, ".go")
	for i, l := range strings.Split(string(data), "\n") {
		t := strings.TrimSpace(l)
		if isGo {
			switch {
			case strings.HasPrefix(t, "//@"):
				t = t[3:]
			case strings.HasPrefix(t, "// @"):
				t = t[4:]
			default:
				continue
			}
		} else if strings.HasPrefix(t, "#") {
			continue
		}
		// strip trailing comments " // ..."
		if k := strings.Index(t, " // "); k >= 0 {
			t = t[:k]
		}
		t = strings.TrimSpace(t)
		if t == "" {
			continue
		}
		out = append(out, specLine{t, filepath.Base(path), i + 1})
	}
	return out, nil
}

var clauseKeywords = map[string]bool{
	"func": true, "extern": true, "callback": true, "pure": true, "ghostfield": true, "chaninv": true, "axiom": true, "uf": true, "ghostvar": true, "guardedby": true, "joins": true, "delivers": true, "thread": true, "owner": true, "owned": true,
	"requires": true, "ensures": true, "modifies": true, "let": true, "ghost": true, "returns": true,
	"at": true, "trusted": true, "noinline": true, "plainsends": true, "params": true, "local": true,
}

func isClauseStart(t string) bool {
	w := t
	if k := strings.IndexAny(t, " \t"); k >= 0 {
		w = t[:k]
	}
	if clauseKeywords[w] {
		return true
	}
	return strings.HasPrefix(w, "loop#")
}

func (ss *SpecSet) load(path string) error {
	lines, err := loadSpecLines(path)
	if err != nil {
		return err
	}
	// merge continuation lines
	var merged []specLine
	for _, l := range lines {
		if !isClauseStart(l.text) && len(merged) > 0 {
			merged[len(merged)-1].text += " " + l.text
			continue
		}
		merged = append(merged, l)
	}
	var cur *Contract
	for _, l := range merged {
		if err := ss.parseLine(l, &cur); err != nil {
			return fmt.Errorf("%s:%d: %v", l.file, l.line, err)
		}
	}
	return nil
}

func splitWord(s string) (string, string) {
	s = strings.TrimSpace(s)
	k := strings.IndexAny(s, " \t")
	if k < 0 {
		return s, ""
	}
	return s[:k], strings.TrimSpace(s[k+1:])
}

func parseLabel(s string) (string, string) {
	s = strings.TrimSpace(s)
	if strings.HasPrefix(s, "[") {
		k := strings.Index(s, "]")
		if k > 0 {
			return s[1:k], strings.TrimSpace(s[k+1:])
		}
	}
	return "", s
}

func mkClause(rest string, l specLine) (Clause, error) {
	label, src := parseLabel(rest)
	e, err := parseExpr(src)
	if err != nil {
		return Clause{}, err
	}
	return Clause{Label: label, E: e, Src: src, File: l.file, Line: l.line}, nil
}

func parseNameList(s string) []string {
	s = strings.TrimSpace(s)
	s = strings.TrimPrefix(s, "(")
	s = strings.TrimSuffix(s, ")")
	var out []string
	for _, p := range strings.Split(s, ",") {
		p = strings.TrimSpace(p)
		if p != "" {
			out = append(out, strings.Fields(p)[0])
		}
	}
	return out
}

func (ss *SpecSet) parseLine(l specLine, cur **Contract) error {
	kw, rest := splitWord(l.text)
	switch kw {
	case "func", "extern", "callback":
		name, after := splitWord(rest)
		c := &Contract{Name: name, Loops: map[int]*LoopSpec{}, File: l.file, Line: l.line}
		// optional "(params)" and "returns (..)" on the header line
		for after != "" {
			if strings.HasPrefix(after, "returns") {
				c.Results = parseNameList(strings.TrimPrefix(after, "returns"))
				break
			}
			if strings.HasPrefix(after, "(") {
				k := strings.Index(after, ")")
				if k < 0 {
					return fmt.Errorf("unterminated parameter list")
				}
				c.Params = parseNameList(after[:k+1])
				after = strings.TrimSpace(after[k+1:])
				continue
			}
			return fmt.Errorf("unexpected %q in header", after)
		}
		switch kw {
		case "func":
			if _, dup := ss.Contracts[name]; dup {
				return fmt.Errorf("duplicate contract for %s", name)
			}
			ss.Contracts[name] = c
		case "extern":
			c.Extern = true
			ss.Externs[name] = c
		case "callback":
			c.Callback = true
			ss.Callbacks[name] = c
		}
		*cur = c
		return nil
	case "pure":
		// pure name(a, b) = expr
		k := strings.Index(rest, "(")
		k2 := strings.Index(rest, ")")
		eq := strings.Index(rest, "=")
		if k < 0 || k2 < k || eq < k2 {
			return fmt.Errorf("malformed pure definition")
		}
		// the '=' must be the first one after the parameter list
		eq = k2 + 1 + strings.Index(rest[k2+1:], "=")
		name := strings.TrimSpace(rest[:k])
		body, err := parseExpr(rest[eq+1:])
		if err != nil {
			return err
		}
		ss.Pures[name] = &PureFn{Name: name, Params: parseNameList(rest[k : k2+1]), Body: body, Src: rest}
		*cur = nil
		return nil
	case "ghostfield":
		// ghostfield name int|bool|intarray
		name, srt := splitWord(rest)
		g := &GhostField{Name: name}
		if k := strings.Index(srt, " of "); k >= 0 {
			g.Of = strings.TrimSpace(srt[k+4:])
			srt = strings.TrimSpace(srt[:k])
		}
		switch srt {
		case "int", "":
			g.Sort = SInt
		case "bool":
			g.Sort = SBool
		case "intarray":
			g.Sort = SArrInt
		default:
			return fmt.Errorf("unknown ghost sort %q", srt)
		}
		ss.Ghosts[name] = g
		*cur = nil
		return nil
	case "delivers":
		// delivers Type.chanField : while the joined goroutine is flagged running,
		// a receive yields the one value it sends before closing the channel
		f, _ := splitWord(rest)
		ss.Delivers[f] = true
		*cur = nil
		return nil
	case "joins":
		// joins Type.chanField ghostField : the channel is closed only by the
		// deferred close of the goroutine whose "running" flag is ghostField
		f, g := splitWord(rest)
		ss.Joins[f] = strings.TrimSpace(g)
		*cur = nil
		return nil
	case "owned":
		// owned Type Type ... : every field of these struct types needs an owner/guardedby policy
		ss.OwnedTypes = append(ss.OwnedTypes, strings.Fields(rest)...)
		*cur = nil
		return nil
	case "thread":
		// thread NAME[*] root root ... : a goroutine role; NAME* = several instances
		// may run concurrently on the same object (API callers)
		w := strings.Fields(rest)
		if len(w) < 2 {
			return fmt.Errorf("thread needs a name and at least one root")
		}
		td := &ThreadDecl{Name: strings.TrimSuffix(w[0], "*"), Multi: strings.HasSuffix(w[0], "*")}
		for _, x := range w[1:] {
			if strings.HasPrefix(x, "before=") {
				td.Before = x[7:]
			} else {
				td.Roots = append(td.Roots, x)
			}
		}
		ss.Threads = append(ss.Threads, td)
		*cur = nil
		return nil
	case "owner":
		// owner Type.field immutable
		// owner Type.field write=r1,r2 read=r3,r4
		w := strings.Fields(rest)
		if len(w) < 2 {
			return fmt.Errorf("owner needs a field and a policy")
		}
		od := &OwnerDecl{Field: w[0], Src: rest}
		if k := strings.Index(rest, " writewhen "); k >= 0 {
			ex, err := parseExpr(rest[k+11:])
			if err != nil {
				return fmt.Errorf("owner writewhen: %v", err)
			}
			od.WriteWhen, od.WhenSrc = ex, strings.TrimSpace(rest[k+11:])
			w = strings.Fields(rest[:k])
		}
		for _, x := range w[1:] {
			switch {
			case strings.HasPrefix(x, "within="):
				od.Within = x[7:]
			case strings.HasPrefix(x, "sync="):
				od.Sync = x[5:]
			case x == "immutable":
				od.Immutable = true
			case strings.HasPrefix(x, "write="):
				od.Writers = strings.Split(x[6:], ",")
			case strings.HasPrefix(x, "read="):
				od.Readers = strings.Split(x[5:], ",")
			default:
				return fmt.Errorf("owner: unknown policy item %q", x)
			}
		}
		ss.Owners[od.Field] = od
		*cur = nil
		return nil
	case "guardedby":
		// guardedby Type.field Type.mutexField
		f, m := splitWord(rest)
		ss.Guarded[f] = strings.TrimSpace(m)
		*cur = nil
		return nil
	case "uf":
		// uf name(arity) int|bool
		k := strings.Index(rest, "(")
		k2 := strings.Index(rest, ")")
		if k < 0 || k2 < k {
			return fmt.Errorf("malformed uf declaration")
		}
		ar, err := strconv.Atoi(strings.TrimSpace(rest[k+1 : k2]))
		if err != nil {
			return fmt.Errorf("uf arity: %v", err)
		}
		u := &UFDecl{Name: strings.TrimSpace(rest[:k]), Arity: ar, Sort: SInt}
		if strings.TrimSpace(rest[k2+1:]) == "bool" {
			u.Sort = SBool
		}
		ss.UFs[u.Name] = u
		*cur = nil
		return nil
	case "chaninv":
		// chaninv fsm.readerMsgCh(v) = expr
		k := strings.Index(rest, "(")
		k2 := strings.Index(rest, ")")
		if k < 0 || k2 < k {
			return fmt.Errorf("malformed chaninv")
		}
		eq := k2 + 1 + strings.Index(rest[k2+1:], "=")
		body, err := parseExpr(rest[eq+1:])
		if err != nil {
			return err
		}
		name := strings.TrimSpace(rest[:k])
		ss.ChanInvs[name] = &PureFn{Name: name, Params: parseNameList(rest[k : k2+1]), Body: body, Src: rest}
		*cur = nil
		return nil
	case "axiom":
		c, err := mkClause(rest, l)
		if err != nil {
			return err
		}
		ss.Axioms = append(ss.Axioms, c)
		*cur = nil
		return nil
	}
	c := *cur
	if c == nil {
		return fmt.Errorf("clause %q outside a contract", kw)
	}
	switch {
	case kw == "returns":
		c.Results = parseNameList(rest)
	case kw == "local":
		// local NAME [#k] TYPE
		n, t := splitWord(rest)
		ld := LocalDecl{Name: n, Ord: -1}
		t = strings.TrimSpace(t)
		if strings.HasPrefix(t, "#") {
			var o string
			o, t = splitWord(t)
			if k, err := strconv.Atoi(o[1:]); err == nil {
				ld.Ord = k
			}
		}
		ld.Type = strings.TrimSpace(t)
		c.Locals = append(c.Locals, ld)
	case kw == "params":
		c.Params = parseNameList(rest)
	case kw == "requires":
		cl, err := mkClause(rest, l)
		if err != nil {
			return err
		}
		c.Requires = append(c.Requires, cl)
	case kw == "ensures":
		cl, err := mkClause(rest, l)
		if err != nil {
			return err
		}
		c.Ensures = append(c.Ensures, cl)
	case kw == "modifies":
		c.HasMod = true
		if strings.TrimSpace(rest) == "nothing" {
			return nil
		}
		for _, part := range splitTopLevel(rest, ',') {
			e, err := parseExpr(part)
			if err != nil {
				return err
			}
			c.Modifies = append(c.Modifies, e)
		}
	case kw == "let" || kw == "ghost":
		eq := strings.Index(rest, "=")
		if eq < 0 {
			return fmt.Errorf("malformed %s", kw)
		}
		e, err := parseExpr(rest[eq+1:])
		if err != nil {
			return err
		}
		d := LetDef{Name: strings.TrimSpace(rest[:eq]), E: e}
		if kw == "let" {
			c.Lets = append(c.Lets, d)
		} else {
			c.Ghosts = append(c.Ghosts, d)
		}
	case kw == "ghostvar":
		// ghostvar name int|bool|intarray = init
		eq := strings.Index(rest, "=")
		if eq < 0 {
			return fmt.Errorf("malformed ghostvar")
		}
		name, srt := splitWord(rest[:eq])
		gv := GhostVar{Name: name}
		switch strings.TrimSpace(srt) {
		case "int", "":
			gv.Sort = SInt
		case "bool":
			gv.Sort = SBool
		case "intarray":
			gv.Sort = SArrInt
		default:
			return fmt.Errorf("unknown ghostvar sort %q", srt)
		}
		e, err := parseExpr(rest[eq+1:])
		if err != nil {
			return err
		}
		gv.Init = e
		c.GhostVars = append(c.GhostVars, gv)
	case kw == "trusted":
		c.Trusted = true
	case kw == "noinline":
		c.NoInline = true
	case kw == "plainsends":
		// plainsends N <why each of them cannot block for ever>
		w, _ := splitWord(rest)
		n, err := strconv.Atoi(w)
		if err != nil {
			return fmt.Errorf("plainsends needs a count")
		}
		c.PlainSends = n
	case strings.HasPrefix(kw, "loop#"):
		k, err := strconv.Atoi(kw[5:])
		if err != nil {
			return fmt.Errorf("bad loop ordinal %q", kw)
		}
		ls := c.Loops[k]
		if ls == nil {
			ls = &LoopSpec{}
			c.Loops[k] = ls
		}
		what, r2 := splitWord(rest)
		cl, err := mkClause(r2, l)
		if err != nil {
			return err
		}
		switch what {
		case "invariant":
			ls.Invariants = append(ls.Invariants, cl)
		case "decreases":
			ls.Decreases = &cl
		case "step":
			ls.Steps = append(ls.Steps, cl)
		default:
			return fmt.Errorf("unknown loop clause %q", what)
		}
	case kw == "at":
		// at call NAME#k assert [label] expr | at return#k assert ... | at send F#k assert
		kind, r2 := splitWord(rest)
		a := AtSpec{Ord: -1}
		if strings.HasPrefix(kind, "return") {
			a.Kind = "return"
			if k := strings.Index(kind, "#"); k >= 0 {
				n, err := strconv.Atoi(kind[k+1:])
				if err != nil {
					return err
				}
				a.Ord = n
			}
		} else if strings.HasPrefix(kind, "select") {
			a.Kind = "select"
			a.Ord = 0
			if k := strings.Index(kind, "#"); k >= 0 {
				n, err := strconv.Atoi(kind[k+1:])
				if err != nil {
					return err
				}
				a.Ord = n
			}
			var cw, cn string
			cw, r2 = splitWord(r2)
			cn, r2 = splitWord(r2)
			if cw != "case" {
				return fmt.Errorf("expected `case N` after at select")
			}
			n, err := strconv.Atoi(cn)
			if err != nil {
				return err
			}
			a.Case = n
		} else {
			a.Kind = kind
			var tgt string
			tgt, r2 = splitWord(r2)
			if k := strings.Index(tgt, "#"); k >= 0 {
				n, err := strconv.Atoi(tgt[k+1:])
				if err != nil {
					return err
				}
				a.Ord = n
				tgt = tgt[:k]
			}
			a.Target = tgt
		}
		what, r3 := splitWord(r2)
		if what == "after" {
			a.After = true
			what, r3 = splitWord(r3)
		}
		if what != "assert" && what != "assume" && what != "set" {
			return fmt.Errorf("expected assert/assume/set after at-anchor, got %q", what)
		}
		a.What = what
		if what == "set" {
			eq := strings.Index(r3, "=")
			for eq >= 0 && eq+1 < len(r3) && (r3[eq+1] == '=' || (eq > 0 && strings.ContainsRune("=!<>", rune(r3[eq-1])))) {
				nx := strings.Index(r3[eq+2:], "=")
				if nx < 0 {
					eq = -1
					break
				}
				eq = eq + 2 + nx
			}
			if eq < 0 {
				return fmt.Errorf("malformed set")
			}
			lhs, err := parseExpr(r3[:eq])
			if err != nil {
				return err
			}
			a.SetLHS = lhs
			r3 = r3[eq+1:]
		}
		cl, err := mkClause(r3, l)
		if err != nil {
			return err
		}
		a.C = cl
		c.Ats = append(c.Ats, a)
	default:
		return fmt.Errorf("unknown clause %q", kw)
	}
	return nil
}

// splitTopLevel splits s at sep outside parentheses/brackets.
func splitTopLevel(s string, sep byte) []string {
	var out []string
	depth := 0
	start := 0
	for i := 0; i < len(s); i++ {
		switch s[i] {
		case '(', '[':
			depth++
		case ')', ']':
			depth--
		default:
			if s[i] == sep && depth == 0 {
				out = append(out, strings.TrimSpace(s[start:i]))
				start = i + 1
			}
		}
	}
	if t := strings.TrimSpace(s[start:]); t != "" {
		out = append(out, t)
	}
	return out
}

func (ss *SpecSet) contractNames() []string {
	var out []string
	for k := range ss.Contracts {
		out = append(out, k)
	}
	sort.Strings(out)
	return out
}
