package main

// Type-directed flattening of Go values into SMT leaves.

import (
	"fmt"
	"go/types"
	"regexp"
	"strings"
)

type LeafKind int

const (
	LInt    LeafKind = iota // sized integer, has a range
	LBool                   // bool
	LRef                    // pointer/chan/map/func: Int, 0 = nil, < alloc
	LOpaque                 // uninterpreted value (string, float, extern struct, type parameter)
	LArr                    // slice .arr component (a Ref)
	LOff                    // slice .off
	LLen                    // slice .len
	LCap                    // slice .cap
	LTag                    // interface .tag
	LVal                    // interface .val
)

type Leaf struct {
	Path  string // e.g. "config.LocalAS", "Data.arr", "fsms[]"
	Sort  Sort
	Kind  LeafKind
	Typ   types.Type // type of the scalar (for ranges); nil when not applicable
	InArr bool       // leaf lives inside an embedded array (Sort is an array sort)
}

type Shape struct {
	Leaves []Leaf
}

// qualifier prints package-local names bare and foreign names with package name.
func (e *Engine) qual(p *types.Package) string {
	if p == e.pkg.Types {
		return ""
	}
	return p.Name()
}

var reByte = regexp.MustCompile(`\bbyte\b`)
var reRune = regexp.MustCompile(`\brune\b`)

// typeName is a canonical textual name (byte/uint8 and rune/int32 unified).
func (e *Engine) typeName(t types.Type) string {
	s := types.TypeString(t, e.qual)
	s = reByte.ReplaceAllString(s, "uint8")
	s = reRune.ReplaceAllString(s, "int32")
	return s
}

// flattenedExterns lists extern struct types whose fields the package accesses
// directly; every other struct type defined outside the package is opaque.
var flattenedExterns = map[string]bool{
	"net.Dialer": true,
}

func (e *Engine) isOpaqueStruct(t types.Type) bool {
	st, isStruct := t.Underlying().(*types.Struct)
	if !isStruct {
		return false
	}
	if n, ok := t.(*types.Named); ok {
		obj := n.Obj()
		if obj.Pkg() != nil && obj.Pkg() != e.pkg.Types && flattenedExterns[obj.Pkg().Name()+"."+obj.Name()] {
			return false
		}
		if obj.Pkg() != nil && obj.Pkg() != e.pkg.Types {
			return true
		}
	}
	// a package type defined over a foreign struct (type X netip.Addr): opaque too
	for i := 0; i < st.NumFields(); i++ {
		f := st.Field(i)
		if !f.Exported() && f.Pkg() != nil && f.Pkg() != e.pkg.Types {
			return true
		}
	}
	return false
}

func (e *Engine) shape(t types.Type) *Shape {
	key := e.typeName(t)
	if s, ok := e.shapes[key]; ok {
		return s
	}
	s := &Shape{}
	e.shapes[key] = s // recursion guard (recursive types only through pointers)
	s.Leaves = e.computeLeaves(t)
	return s
}

func (e *Engine) computeLeaves(t types.Type) []Leaf {
	if e.isOpaqueStruct(t) {
		return []Leaf{{Sort: SInt, Kind: LOpaque, Typ: t}}
	}
	switch u := t.Underlying().(type) {
	case *types.Basic:
		switch {
		case u.Info()&types.IsBoolean != 0:
			return []Leaf{{Sort: SBool, Kind: LBool, Typ: t}}
		case u.Info()&types.IsInteger != 0:
			return []Leaf{{Sort: SInt, Kind: LInt, Typ: t}}
		case u.Kind() == types.UnsafePointer:
			return []Leaf{{Sort: SInt, Kind: LRef, Typ: t}}
		case u.Kind() == types.UntypedNil:
			return []Leaf{{Sort: SInt, Kind: LRef, Typ: t}}
		default: // string, float, complex
			return []Leaf{{Sort: SInt, Kind: LOpaque, Typ: t}}
		}
	case *types.Pointer, *types.Chan, *types.Map, *types.Signature:
		return []Leaf{{Sort: SInt, Kind: LRef, Typ: t}}
	case *types.Slice:
		return []Leaf{
			{Path: "arr", Sort: SInt, Kind: LArr, Typ: t},
			{Path: "off", Sort: SInt, Kind: LOff, Typ: t},
			{Path: "len", Sort: SInt, Kind: LLen, Typ: t},
			{Path: "cap", Sort: SInt, Kind: LCap, Typ: t},
		}
	case *types.Interface:
		if _, isTP := t.(*types.TypeParam); isTP {
			return []Leaf{{Sort: SInt, Kind: LOpaque, Typ: t}}
		}
		return []Leaf{
			{Path: "tag", Sort: SInt, Kind: LTag, Typ: t},
			{Path: "val", Sort: SInt, Kind: LVal, Typ: t},
		}
	case *types.Struct:
		var out []Leaf
		for i := 0; i < u.NumFields(); i++ {
			f := u.Field(i)
			for _, l := range e.shape(f.Type()).Leaves {
				l.Path = joinPath(f.Name(), l.Path)
				out = append(out, l)
			}
		}
		return out
	case *types.Array:
		var out []Leaf
		for _, l := range e.shape(u.Elem()).Leaves {
			if l.InArr {
				panic("nested arrays unsupported: " + t.String())
			}
			l.Path = joinPath("[]", l.Path)
			l.Sort = arrOf(l.Sort)
			l.InArr = true
			out = append(out, l)
		}
		return out
	case *types.Tuple:
		var out []Leaf
		for i := 0; i < u.Len(); i++ {
			for _, l := range e.shape(u.At(i).Type()).Leaves {
				l.Path = joinPath(fmt.Sprintf("#%d", i), l.Path)
				out = append(out, l)
			}
		}
		return out
	}
	if _, isTP := t.(*types.TypeParam); isTP {
		return []Leaf{{Sort: SInt, Kind: LOpaque, Typ: t}}
	}
	panic("shape: unsupported type " + t.String())
}

func joinPath(a, b string) string {
	if b == "" {
		return a
	}
	if a == "" {
		return b
	}
	return a + "." + b
}

// SV is a symbolic value: leaf terms in shape order.
type SV struct {
	Typ types.Type
	T   []Term
}

func (v SV) one() Term {
	if len(v.T) != 1 {
		panic(fmt.Sprintf("SV.one: %d leaves for %v", len(v.T), v.Typ))
	}
	return v.T[0]
}

// slice component accessors
func (v SV) arr() Term { return v.T[0] }
func (v SV) off() Term { return v.T[1] }
func (v SV) ln() Term  { return v.T[2] }
func (v SV) cp() Term  { return v.T[3] }

// interface component accessors
func (v SV) tag() Term  { return v.T[0] }
func (v SV) ival() Term { return v.T[1] }

func isSlice(t types.Type) bool {
	_, ok := t.Underlying().(*types.Slice)
	return ok
}

func isIface(t types.Type) bool {
	if _, isTP := t.(*types.TypeParam); isTP {
		return false
	}
	_, ok := t.Underlying().(*types.Interface)
	return ok
}

func isPointer(t types.Type) bool {
	_, ok := t.Underlying().(*types.Pointer)
	return ok
}

func isStruct(t types.Type) bool {
	_, ok := t.Underlying().(*types.Struct)
	return ok
}

func isArray(t types.Type) bool {
	_, ok := t.Underlying().(*types.Array)
	return ok
}

func pointee(t types.Type) types.Type {
	return t.Underlying().(*types.Pointer).Elem()
}

// intRange returns the closed range of a sized integer type.
func intRange(typ types.Type) (lo, hi Term, ok bool) {
	b, isB := typ.Underlying().(*types.Basic)
	if !isB {
		return "", "", false
	}
	switch b.Kind() {
	case types.Uint8:
		return "0", "255", true
	case types.Uint16:
		return "0", "65535", true
	case types.Uint32:
		return "0", "4294967295", true
	case types.Uint64, types.Uint, types.Uintptr:
		return "0", "18446744073709551615", true
	case types.Int8:
		return "(- 128)", "127", true
	case types.Int16:
		return "(- 32768)", "32767", true
	case types.Int32:
		return "(- 2147483648)", "2147483647", true
	case types.Int, types.Int64:
		return "(- 9223372036854775808)", "9223372036854775807", true
	case types.UntypedInt, types.UntypedRune:
		return "", "", false
	}
	return "", "", false
}

// wrapTo reduces a mathematical integer term to the value Go's arithmetic on
// typ would produce. The in-range case is kept syntactically cheap.
func wrapTo(t Term, typ types.Type) Term {
	lo, hi, ok := intRange(typ)
	if !ok {
		return t
	}
	if isNum(t) {
		v := numVal(t)
		l, h := numVal(lo), numVal(hi)
		if v.Cmp(l) >= 0 && v.Cmp(h) <= 0 {
			return t
		}
	}
	m := mkAdd(mkSub(hi, lo), "1")
	var wrapped Term
	if lo == "0" {
		wrapped = mkMod(t, m)
	} else {
		// signed: ((x - lo) mod m) + lo
		wrapped = mkAdd(mkMod(mkSub(t, lo), m), lo)
	}
	if isNum(wrapped) {
		return wrapped
	}
	return mkIte(mkAnd(mkLe(lo, t), mkLe(t, hi)), t, wrapped)
}

func leafIndex(sh *Shape, path string) int {
	for i, l := range sh.Leaves {
		if l.Path == path {
			return i
		}
	}
	return -1
}

// subLeaves returns the index range [lo,hi) of leaves whose path is under prefix.
func subLeaves(sh *Shape, prefix string) (int, int) {
	lo, hi := -1, -1
	for i, l := range sh.Leaves {
		if l.Path == prefix || strings.HasPrefix(l.Path, prefix+".") {
			if lo < 0 {
				lo = i
			}
			hi = i + 1
		}
	}
	return lo, hi
}
