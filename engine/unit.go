package main

// A verification unit: one function of /repo checked against its contract.

import (
	"fmt"
	"go/types"
	"strings"

	"golang.org/x/tools/go/ssa"
)

type UnitResult struct {
	Name     string
	VC       *VC
	Err      error
	HasSpec  bool
	Trusted  bool
	NumBlock int
	Flags    map[int]bool // surviving Houdini candidates
}

func (e *Engine) buildUnit(name string) (res *UnitResult) {
	fn := e.funcs[name]
	res = &UnitResult{Name: name}
	if fn == nil {
		res.Err = fmt.Errorf("unknown function %s", name)
		return
	}
	vc := newVC(e, name)
	res.VC = vc
	res.NumBlock = len(fn.Blocks)
	defer func() {
		if r := recover(); r != nil {
			if se, ok := r.(specError); ok {
				res.Err = fmt.Errorf("spec error in %s: %s", name, se.msg)
				return
			}
			res.Err = fmt.Errorf("engine failure in %s: %v", name, r)
			if e.verbose {
				panic(r)
			}
		}
	}()
	fc := newFnCtx(vc, fn, nil)
	fc.isUnit = true
	c := fc.contract
	res.HasSpec = c != nil
	if c != nil && c.Trusted {
		res.Trusted = true
		vc.note("TRUSTED contract (body not verified): " + name)
		return
	}
	st := &State{guard: "true", heap: map[string]Term{}, alloc: "alloc0"}
	fc.entry = vc.old
	vc.assert(mkLe("100000", "alloc0"))
	// parameters
	for i, p := range fn.Params {
		v := vc.havoc(p.Type(), "p_"+p.Name(), "alloc0")
		fc.vals[p] = v
		fc.entryEnv[p.Name()] = v
		// implicit precondition: pointer receivers are non-nil
		if i == 0 && fn.Signature.Recv() != nil && isPointer(p.Type()) {
			vc.assert(mkNot(mkEq(v.one(), "0")))
		}
	}
	// captured variables of a closure verified on its own
	for _, fv := range fn.FreeVars {
		v := vc.havoc(fv.Type(), "fv_"+fv.Name(), "alloc0")
		fc.freeBind[fv] = v
		if isPointer(fv.Type()) {
			vc.assert(mkNot(mkEq(v.one(), "0")))
			fc.cells[fv.Name()] = v
		} else {
			fc.entryEnv[fv.Name()] = v
		}
	}
	if c != nil {
		for _, gv := range c.GhostVars {
			gv := gv
			fc.ghostVars[gv.Name] = gv
			vc.safeEval(name+" ghostvar "+gv.Name, func() {
				env := fc.env(st, nil)
				v := env.eval(gv.Init)
				fc.ghostSet(st, "var."+gv.Name, gv.Sort, "0", v.T[0])
			})
		}
		env := fc.env(st, nil)
		env.old = nil
		for _, g := range c.Ghosts {
			g := g
			vc.safeEval(name+" ghost "+g.Name, func() {
				v := env.eval(g.E)
				fc.ghostEnv[g.Name] = v
				fc.entryEnv[g.Name] = v
			})
		}
		env = fc.env(st, nil)
		for _, r := range c.Requires {
			r := r
			vc.safeEval(fmt.Sprintf("%s:%d requires", r.File, r.Line), func() {
				vc.assert(env.evalBool(r.E))
			})
		}
		vc.safeEval(name+" modifies", func() { fc.modTargets = env.modTargets(c) })
	}
	if len(fn.Blocks) == 0 {
		return
	}
	fc.run(fn.Blocks[0], st, nil, false)
	var rg []Term
	for _, r := range fc.rets {
		if !r.st.dead {
			rg = append(rg, r.st.guard)
		}
	}
	vc.cover = mkOr(rg...)
	// postconditions at every return
	for _, r := range fc.rets {
		if r.st.dead {
			continue
		}
		if c == nil {
			continue
		}
		env := fc.env(r.st, nil)
		env.fcLocalsOff()
		env.vars = map[string]SV{}
		for k, v := range fc.entryEnv {
			env.vars[k] = v
		}
		resT := fn.Signature.Results()
		var flat SV
		flat.Typ = resT
		for _, x := range r.results {
			flat.T = append(flat.T, x.T...)
		}
		var rt types.Type = resT
		if resT.Len() == 1 {
			rt = resT.At(0).Type()
		}
		fc.bindResults(env, c, fn, SV{Typ: rt, T: flat.T}, rt)
		for _, gv := range c.GhostVars {
			t := fc.ghostGet(r.st, "var."+gv.Name, gv.Sort, "0")
			switch gv.Sort {
			case SBool:
				env.vars[gv.Name] = mathBool(t)
			case SArrInt:
				env.vars[gv.Name] = SV{Typ: tIntArray, T: []Term{t}}
			default:
				env.vars[gv.Name] = mathInt(t)
			}
		}
		for i, en := range c.Ensures {
			en := en
			label := en.Label
			if label == "" {
				label = fmt.Sprintf("post%d", i)
			}
			vc.safeEval(fmt.Sprintf("%s:%d ensures", en.File, en.Line), func() {
				goal := env.evalBool(en.E)
				o := vc.oblige(r.st, "ensures", label, fmt.Sprintf("%s@return#%d", label, r.ord), e.pos(r.pos), goal)
				// a known finding with a region: outside the region the obligation must still hold
				for _, f := range e.findings {
					if f.Kind == "finding" && f.RegionE != nil && strings.HasPrefix(o.Name, f.Obligation) {
						reg := env.evalBool(f.RegionE)
						vc.oblige(r.st, "ensures", label, fmt.Sprintf("%s@return#%d~outside-region", label, r.ord), e.pos(r.pos), mkOr(reg, goal))
					}
				}
			})
		}
		for _, a := range c.Ats {
			if a.Kind != "return" || (a.Ord >= 0 && a.Ord != r.ord) {
				continue
			}
			a := a
			vc.atMatched[fmt.Sprintf("%s:%d", a.C.File, a.C.Line)] = true
			vc.safeEval(fmt.Sprintf("%s:%d at return", a.C.File, a.C.Line), func() {
				// private clause: may mention the function's locals at the return
				// at-return clauses are evaluated at the return statement itself, i.e.
				// before the deferred calls run
				lenv := fc.env(r.preSt, r.blk)
				lenv.atInstr = r.instr
				for k, v := range env.vars {
					if _, isParam := fc.entryEnv[k]; !isParam {
						lenv.vars[k] = v
					}
				}
				vc.oblige(r.preSt, "assert", a.C.Label, fmt.Sprintf("at return#%d:%s", r.ord, a.C.Label), e.pos(r.pos), lenv.evalBool(a.C.E))
			})
		}
	}
	e.assertAxioms(fc, st)
	// every call anchor of the contract must have matched a call site
	if c != nil && vc.err == nil {
		for _, a := range c.Ats {
			if (a.Kind == "call" || a.Kind == "select" || a.Kind == "recv" || a.Kind == "return") && !vc.atMatched[fmt.Sprintf("%s:%d", a.C.File, a.C.Line)] {
				ord := "(any)"
				if a.Ord >= 0 {
					ord = fmt.Sprintf("#%d", a.Ord)
				}
				vc.err = fmt.Errorf("%s:%d: anchor `at call %s%s` matches no call site of %s", a.C.File, a.C.Line, a.Target, ord, name)
			}
		}
	}
	if vc.err != nil {
		res.Err = vc.err
	}
	return
}

// assertAxioms adds the global axioms that mention an uninterpreted function
// used by this VC.
func (e *Engine) assertAxioms(fc *FnCtx, st *State) {
	vc := fc.vc
	done := map[int]bool{}
	for changed := true; changed; {
		changed = false
		for i, ax := range e.spec.Axioms {
			if done[i] {
				continue
			}
			uses := false
			for u := range vc.usedUF {
				if containsWord(ax.Src, u) {
					uses = true
				}
			}
			if !uses {
				continue
			}
			done[i] = true
			changed = true
			ax := ax
			vc.safeEval(fmt.Sprintf("%s:%d axiom", ax.File, ax.Line), func() {
				env := &Env{fc: fc, vc: vc, st: vc.old, vars: map[string]SV{}, bound: map[string]Term{}, nquant: &vc.n, noFc: true}
				vc.assertGlobal(env.evalBool(ax.E))
				vc.note("assumed axiom: " + ax.Src)
			})
		}
	}
}

func containsWord(s, w string) bool {
	for k := 0; ; {
		i := indexFrom(s, w, k)
		if i < 0 {
			return false
		}
		before := i == 0 || !isIdentChar(s[i-1])
		after := i+len(w) >= len(s) || !isIdentChar(s[i+len(w)])
		if before && after {
			return true
		}
		k = i + 1
	}
}

func indexFrom(s, w string, k int) int {
	if k >= len(s) {
		return -1
	}
	for i := k; i+len(w) <= len(s); i++ {
		if s[i:i+len(w)] == w {
			return i
		}
	}
	return -1
}

func isIdentChar(c byte) bool {
	return c == '_' || c >= 'a' && c <= 'z' || c >= 'A' && c <= 'Z' || c >= '0' && c <= '9'
}

var _ = ssa.NaiveForm
