package main

// Calls: builtins, contracts (modular), inlining, callbacks, defers, frames.

import (
	"fmt"
	"go/token"
	"go/types"
	"sort"
	"strings"

	"golang.org/x/tools/go/ssa"
)

const maxInlineDepth = 5

type modTarget struct {
	lv    *LV
	whole bool   // whole column(s): every object
	ghost string // ghost column name (lv nil)
	key   Term   // ghost key ("" = whole column)
	src   string
}

func (fc *FnCtx) call(st *State, instr ssa.CallInstruction, c *ssa.CallCommon) SV {
	name := fc.callName[instr]
	var args []SV
	if c.IsInvoke() {
		args = append(args, fc.val(c.Value))
	}
	for _, a := range c.Args {
		args = append(args, fc.val(a))
	}
	fc.atCall(st, instr, name, args, false, SV{})
	res := fc.callInner(st, instr, c)
	if !st.dead {
		fc.atCall(st, instr, name, args, true, res)
	}
	return res
}

func (fc *FnCtx) callInner(st *State, instr ssa.CallInstruction, c *ssa.CallCommon) SV {
	vc := fc.vc
	resT := instrResultType(instr, c)
	if c.IsInvoke() {
		return fc.invoke(st, instr, c, resT)
	}
	switch callee := c.Value.(type) {
	case *ssa.Builtin:
		return fc.builtin(st, instr, c, callee, resT)
	case *ssa.Function:
		var args []SV
		for _, a := range c.Args {
			args = append(args, fc.val(a))
		}
		return fc.callStatic(st, instr, callee, args, nil, resT)
	case *ssa.MakeClosure:
		var args []SV
		for _, a := range c.Args {
			args = append(args, fc.val(a))
		}
		return fc.callStatic(st, instr, callee.Fn.(*ssa.Function), args, callee, resT)
	}
	// dynamic call of a function value
	if mc := fc.traceClosure(c.Value); mc != nil {
		var args []SV
		for _, a := range c.Args {
			args = append(args, fc.val(a))
		}
		return fc.callStatic(st, instr, mc.Fn.(*ssa.Function), args, mc, resT)
	}
	name := fc.valueSourceName(c.Value)
	fv := fc.val(c.Value).one()
	fc.safety(st, "nil-func", instr.Pos(), name, mkNot(mkEq(fv, "0")))
	var args []SV
	for _, a := range c.Args {
		args = append(args, fc.val(a))
	}
	cb := fc.e.spec.Callbacks[fc.name+":"+name]
	if cb == nil {
		cb = fc.e.spec.Callbacks[name]
	}
	if cb != nil {
		return fc.applyContract(st, instr, cb, nil, args, name, resT, c)
	}
	vc.note("callback " + name + " in " + fc.name + ": no contract, result havocked, assumed not to modify corebgp state")
	return vc.havoc(resT, "cb_"+name, st.alloc)
}

func instrResultType(instr ssa.CallInstruction, c *ssa.CallCommon) types.Type {
	if v, ok := instr.(ssa.Value); ok {
		return v.Type()
	}
	return c.Signature().Results()
}

// traceClosure follows a func value back to a MakeClosure of this activation.
func (fc *FnCtx) traceClosure(v ssa.Value) *ssa.MakeClosure {
	for i := 0; i < 8; i++ {
		switch x := v.(type) {
		case *ssa.MakeClosure:
			return x
		case *ssa.ChangeType:
			v = x.X
		case *ssa.Phi:
			return nil
		case *ssa.UnOp:
			// load of a local variable cell that was assigned exactly one closure
			if x.Op != token.MUL {
				return nil
			}
			if fv, isFV := x.X.(*ssa.FreeVar); isFV && fc.fn.Parent() != nil {
				// a captured func variable: find the closure assigned to it in the parent
				for _, pb := range fc.fn.Parent().Blocks {
					for _, pin := range pb.Instrs {
						if pa, ok := pin.(*ssa.Alloc); ok && pa.Comment == fv.Name() {
							var found *ssa.MakeClosure
							n := 0
							for _, ref := range *pa.Referrers() {
								if s, ok := ref.(*ssa.Store); ok && s.Addr == pa {
									n++
									if mc, ok := s.Val.(*ssa.MakeClosure); ok {
										found = mc
									}
								}
							}
							if n == 1 && found != nil && found.Fn == fc.fn {
								return found // recursive call of the closure itself
							}
						}
					}
				}
				return nil
			}
			a, ok := x.X.(*ssa.Alloc)
			if !ok {
				return nil
			}
			var found *ssa.MakeClosure
			n := 0
			for _, ref := range *a.Referrers() {
				if s, ok := ref.(*ssa.Store); ok && s.Addr == a {
					n++
					if mc, ok := s.Val.(*ssa.MakeClosure); ok {
						found = mc
					}
				}
			}
			if n == 1 {
				return found
			}
			return nil
		default:
			return nil
		}
	}
	return nil
}

func (fc *FnCtx) callStatic(st *State, instr ssa.CallInstruction, callee *ssa.Function, args []SV, mc *ssa.MakeClosure, resT types.Type) SV {
	vc := fc.vc
	e := fc.e
	if callee.Pkg != e.spkg && !(callee.Origin() != nil && callee.Origin().Pkg == e.spkg) && !(callee.Parent() != nil && e.names[callee] != "") {
		return fc.externCall(st, instr, callee, args, resT)
	}
	if callee.Origin() != nil {
		callee = callee.Origin()
	}
	name := e.shortName(callee)
	if _, known := e.funcs[name]; !known || callee.Blocks == nil {
		return fc.externCall(st, instr, callee, args, resT)
	}
	// implicit precondition of methods: non-nil pointer receiver
	if recv := callee.Signature.Recv(); recv != nil && isPointer(recv.Type()) && len(args) > 0 {
		if !isNum(args[0].one()) || args[0].one() == "0" {
			fc.safety(st, "nil-receiver", instr.Pos(), callee.Name(), mkNot(mkEq(args[0].one(), "0")))
		}
	}
	if c := e.spec.Contracts[name]; c != nil && (len(c.Ensures) > 0 || len(c.Requires) > 0 || c.HasMod || c.Trusted) {
		var cc *ssa.CallCommon
		if instr != nil {
			cc = instr.Common()
		}
		// free variables of a contracted closure are bound like parameters
		return fc.applyContract(st, instr, c, callee, args, callee.Name(), resT, cc, mc)
	}
	// no contract: inline
	if fc.depth >= maxInlineDepth || fc.onStack(callee) {
		vc.note("call to " + name + " in " + fc.name + " not inlined (depth/recursion): result havocked")
		return vc.havoc(resT, "call_"+callee.Name(), st.alloc)
	}
	return fc.inline(st, instr, callee, args, mc, resT)
}

func (fc *FnCtx) onStack(fn *ssa.Function) bool {
	for c := fc; c != nil; c = c.parent {
		if c.fn == fn {
			return true
		}
	}
	return false
}

// inline executes callee's body in the caller's VC.
func (fc *FnCtx) inline(st *State, instr ssa.CallInstruction, callee *ssa.Function, args []SV, mc *ssa.MakeClosure, resT types.Type) SV {
	vc := fc.vc
	sub := newFnCtx(vc, callee, fc)
	if instr != nil {
		sub.inlinePath = append(append([]ssa.Instruction{}, fc.inlinePath...), instr)
	}
	sub.modTargets, sub.modAll = fc.modTargets, fc.modAll
	sub.inheritFrame(fc)
	for i, p := range callee.Params {
		if i < len(args) {
			sub.vals[p] = fc.coerce(args[i], p.Type())
			sub.entryEnv[p.Name()] = sub.vals[p]
		}
	}
	if mc != nil {
		for i, fv := range callee.FreeVars {
			b := mc.Bindings[i]
			sub.freeBind[fv] = fc.val(b)
			if lv, ok := fc.lvs[b]; ok {
				sub.freeLV[fv] = lv
			}
			if pfv, ok := b.(*ssa.FreeVar); ok {
				if lv, ok := fc.freeLV[pfv]; ok {
					sub.freeLV[fv] = lv
				}
			}
		}
	} else if len(callee.FreeVars) > 0 {
		// closure called without a visible MakeClosure (e.g. go statement on a stored closure)
		for _, fv := range callee.FreeVars {
			sub.freeBind[fv] = vc.havoc(fv.Type(), "fv_"+fv.Name(), st.alloc)
		}
	}
	sub.entry = st.clone()
	in := st.clone()
	sub.run(callee.Blocks[0], in, nil, false)
	// join returns
	var sts []*State
	for _, r := range sub.rets {
		sts = append(sts, r.st)
	}
	post := vc.joinStates(sts, "ret_"+callee.Name())
	*st = *post
	if st.dead {
		return vc.zero(resT)
	}
	nres := callee.Signature.Results().Len()
	if nres == 0 {
		return SV{Typ: resT}
	}
	if len(sub.rets) == 1 {
		return flattenResults(resT, sub.rets[0].results)
	}
	out := SV{Typ: resT}
	sh := fc.e.shape(resT)
	for _, l := range sh.Leaves {
		out.T = append(out.T, vc.fresh("r_"+callee.Name()+"_"+l.Path, l.Sort))
	}
	for _, r := range sub.rets {
		if r.st.dead {
			continue
		}
		vc.defEq(r.st.guard, out, flattenResults(resT, r.results))
	}
	return out
}

func flattenResults(resT types.Type, rs []SV) SV {
	out := SV{Typ: resT}
	for _, r := range rs {
		out.T = append(out.T, r.T...)
	}
	return out
}

func (fc *FnCtx) inheritFrame(p *FnCtx) {
	fc.isUnit = false
}

// ---------- contracts ----------

// contractEnv binds a contract's parameter names to actual arguments.
func (fc *FnCtx) contractEnv(c *Contract, callee *ssa.Function, args []SV, st *State, mc *ssa.MakeClosure) *Env {
	env := &Env{fc: fc, vc: fc.vc, st: st, vars: map[string]SV{}, bound: map[string]Term{}, nquant: &fc.vc.n, cells: map[string]SV{}}
	env.lets = map[string]Expr{}
	for _, l := range c.Lets {
		env.lets[l.Name] = l.E
	}
	if callee != nil {
		for i, p := range callee.Params {
			if i < len(args) {
				env.vars[p.Name()] = fc.coerce(args[i], p.Type())
			}
		}
		if mc != nil {
			for i, fv := range callee.FreeVars {
				// captured variable: name denotes the variable's value
				var b SV
				if callee == fc.fn && i < len(fc.fn.FreeVars) {
					b = fc.val(fc.fn.FreeVars[i]) // recursive call: same captured variables
				} else {
					b = fc.val(mc.Bindings[i])
				}
				env.cells[fv.Name()] = b
				if isPointer(fv.Type()) {
					env.vars[fv.Name()] = fc.vc.load(st, fc.e.rootLV(b.one(), pointee(fv.Type())))
				} else {
					env.vars[fv.Name()] = b
				}
			}
		}
	}
	for i, a := range args {
		env.vars[fmt.Sprintf("arg%d", i)] = a
		if i < len(c.Params) {
			env.vars[c.Params[i]] = a
		}
	}
	if callee != nil && len(c.Locals) > 0 {
		// captured variables of the callee that were renamed
		al, _ := fc.e.aliases(callee, c)
		for spec, actual := range al {
			if v, ok := env.vars[actual]; ok {
				if _, have := env.vars[spec]; !have {
					env.vars[spec] = v
				}
			}
			if v, ok := env.cells[actual]; ok {
				if _, have := env.cells[spec]; !have {
					env.cells[spec] = v
				}
			}
		}
	}
	return env
}

// pureEnv must not resolve caller locals: contracts are closed over their parameters.
func closeEnv(env *Env) *Env {
	env.at = nil
	env.atInstr = nil
	return env
}

func (fc *FnCtx) applyContract(st *State, instr ssa.CallInstruction, c *Contract, callee *ssa.Function, args []SV, calleeName string, resT types.Type, cc *ssa.CallCommon, mcs ...*ssa.MakeClosure) SV {
	vc := fc.vc
	var mc *ssa.MakeClosure
	if len(mcs) > 0 {
		mc = mcs[0]
	}
	pre := st.clone()
	env := fc.contractEnv(c, callee, args, pre, mc)
	env.fcLocalsOff()
	ord := 0
	pos := "-"
	if instr != nil {
		ord = fc.ordOf(instr)
		pos = fc.e.pos(instr.Pos())
	}
	site := fmt.Sprintf("%s#%d", calleeName, ord)
	// entry ghosts of the callee
	for _, g := range c.Ghosts {
		g := g
		vc.safeEval(c.Name+" ghost "+g.Name, func() { env.vars[g.Name] = env.eval(g.E) })
	}
	for i, r := range c.Requires {
		label := r.Label
		if label == "" {
			label = fmt.Sprintf("pre%d", i)
		}
		r := r
		vc.safeEval(fmt.Sprintf("%s:%d requires", r.File, r.Line), func() {
			t := env.evalBool(r.E)
			vc.oblige(st, "requires", label, site+":"+label, pos, t)
			st.guard = vc.define("g_pre", SBool, mkAnd(st.guard, t))
		})
	}
	// frame: havoc what the callee may modify
	var targets []modTarget
	vc.safeEval(c.Name+" modifies", func() { targets = env.modTargets(c) })
	for _, t := range targets {
		fc.frameCheckTarget(st, t, instr, site)
		fc.havocTarget(st, t)
	}
	na := vc.fresh("alloc", SInt)
	vc.assert(mkLe(st.alloc, na))
	st.alloc = na
	// results
	res := vc.havoc(resT, "res_"+calleeName, st.alloc)
	post := &Env{fc: fc, vc: vc, st: st, old: pre, vars: map[string]SV{}, bound: map[string]Term{}, lets: env.lets, nquant: &vc.n, cells: env.cells}
	// captured variables denote their value in the state the clause is evaluated in
	post.cellVars = true
	for k, v := range env.vars {
		post.vars[k] = v
	}
	post.oldVars = env.vars
	post.fcLocalsOff()
	fc.bindResults(post, c, callee, res, resT)
	// ghost results: the callee's ghost variables at its return (existential witnesses)
	fc.lastGhost = map[string]SV{}
	for _, gv := range c.GhostVars {
		t := vc.fresh("gr_"+gv.Name, gv.Sort)
		var sv SV
		switch gv.Sort {
		case SBool:
			sv = mathBool(t)
		case SArrInt:
			sv = SV{Typ: tIntArray, T: []Term{t}}
		default:
			sv = mathInt(t)
		}
		post.vars[gv.Name] = sv
		fc.lastGhost[gv.Name] = sv
	}
	for _, en := range c.Ensures {
		en := en
		vc.safeEval(fmt.Sprintf("%s:%d ensures", en.File, en.Line), func() {
			vc.assume(st, post.evalBool(en.E))
		})
	}
	if c.Trusted {
		vc.note("TRUSTED contract (body not verified): " + c.Name)
	}
	if c.Extern {
		vc.note("assumed extern contract: " + c.Name)
	}
	if c.Callback {
		vc.note("assumed callback contract: " + c.Name)
	}
	return res
}

// fcLocalsOff makes identifier resolution ignore the caller's locals.
func (env *Env) fcLocalsOff() {
	env.at = nil
	env.atInstr = nil
	env.noFc = true
}

func (fc *FnCtx) bindResults(env *Env, c *Contract, callee *ssa.Function, res SV, resT types.Type) {
	var rtypes []types.Type
	if tup, ok := resT.(*types.Tuple); ok {
		for i := 0; i < tup.Len(); i++ {
			rtypes = append(rtypes, tup.At(i).Type())
		}
	} else if resT != nil {
		rtypes = []types.Type{resT}
	}
	off := 0
	for i, rt := range rtypes {
		n := len(fc.e.shape(rt).Leaves)
		sv := SV{Typ: rt, T: res.T[off : off+n]}
		off += n
		env.vars[fmt.Sprintf("result%d", i)] = sv
		if len(rtypes) == 1 {
			env.vars["result"] = sv
		}
		if i < len(c.Results) {
			env.vars[c.Results[i]] = sv
		} else if callee != nil && callee.Signature.Results().At(i).Name() != "" {
			env.vars[callee.Signature.Results().At(i).Name()] = sv
		}
	}
}

// modTargets evaluates a contract's modifies clause in env.
func (env *Env) modTargets(c *Contract) []modTarget {
	var out []modTarget
	e := env.vc.e
	for _, m := range c.Modifies {
		src := exprString(m)
		switch x := m.(type) {
		case *ECall:
			if x.Fn == "onceDone" || x.Fn == "locked" || x.Fn == "lockCount" {
				if lv := env.evalLV(x.Args[0]); lv != nil && strings.HasPrefix(e.typeName(lv.Typ), "sync.") {
					out = append(out, modTarget{ghost: x.Fn, key: env.fc.interiorPtr(lv), src: src})
					continue
				}
			}
			if g, ok := e.spec.Ghosts[x.Fn]; ok {
				k := env.eval(x.Args[0])
				out = append(out, modTarget{ghost: g.Name, key: k.T[len(k.T)-1], src: src})
				continue
			}
			if x.Fn == "mapOf" {
				m := env.eval(x.Args[0])
				mt, ok := m.Typ.Underlying().(*types.Map)
				if !ok {
					env.fail("mapOf: not a map")
				}
				out = append(out, modTarget{lv: &LV{Col: "map:" + e.typeName(m.Typ), Ref: m.one(), Typ: mt.Elem()}, src: src})
				out = append(out, modTarget{ghost: "mapLen", key: m.one(), src: src})
				continue
			}
			if x.Fn == "elems" {
				s := env.eval(x.Args[0])
				elem := s.Typ.Underlying().(*types.Slice).Elem()
				at := types.NewArray(elem, 0)
				out = append(out, modTarget{lv: &LV{Col: e.elemCol(elem), Ref: s.arr(), Typ: at, Elem: true}, src: src})
				continue
			}
			if x.Fn == "chanClosed" {
				k := env.eval(x.Args[0])
				out = append(out, modTarget{ghost: "chanClosed", key: k.one(), src: src})
				continue
			}
			if x.Fn == "onceDone" || x.Fn == "locked" || x.Fn == "lockCount" {
				if lv := env.evalLV(x.Args[0]); lv != nil {
					out = append(out, modTarget{ghost: x.Fn, key: env.fc.interiorPtr(lv), src: src})
					continue
				}
			}
		case *EIdent:
			if g, ok := e.spec.Ghosts[x.Name]; ok {
				out = append(out, modTarget{ghost: g.Name, src: src})
				continue
			}
			if x.Name == "chanClosed" || x.Name == "onceDone" || x.Name == "mapLen" {
				out = append(out, modTarget{ghost: x.Name, src: src})
				continue
			}
		case *ESel:
			// Type.field: whole column
			if id, ok := x.X.(*EIdent); ok {
				if _, isVar := env.vars[id.Name]; !isVar {
					if T := e.lookupType(id.Name); T != nil && isStruct(T) {
						lv := e.rootLV("0", T)
						if sub, ok := env.fieldLV(lv, x.Name); ok {
							out = append(out, modTarget{lv: sub, whole: true, src: src})
							continue
						}
					}
				}
			}
		}
		lv := env.evalLV(m)
		if lv == nil {
			env.fail("modifies target %s is not a location", src)
		}
		out = append(out, modTarget{lv: lv, src: src})
	}
	return out
}

func (fc *FnCtx) havocTarget(st *State, t modTarget) {
	vc := fc.vc
	if t.lv == nil {
		g := "ghost." + t.ghost
		s := vc.cols[g]
		if _, ok := vc.cols[g]; !ok {
			if gf, ok := fc.e.spec.Ghosts[t.ghost]; ok {
				s = arrOf(gf.Sort)
			} else {
				s = SArrBool
			}
		}
		h := vc.colGet(st, g, s)
		if t.key == "" {
			st.heap[g] = vc.fresh("H_"+g, s)
		} else {
			vc.colSetStore(st, g, s, h, t.key, "", vc.fresh("gh", elemOf(s)))
		}
		return
	}
	lv := t.lv
	for _, l := range fc.e.shape(lv.Typ).Leaves {
		col, s, two := vc.lvLeafCol(lv, l)
		h := vc.colGet(st, col, s)
		switch {
		case t.whole:
			st.heap[col] = vc.fresh("H_"+col, s)
		case two:
			vc.colSetStore(st, col, s, h, lv.Ref, lv.Idx, vc.fresh("hv", elemOf(elemOf(s))))
		default:
			vc.colSetStore(st, col, s, h, lv.Ref, "", vc.fresh("hv", elemOf(s)))
		}
	}
}

// ---------- frame checking ----------

func lvCovers(t *LV, s *LV) bool {
	if t.Col != s.Col {
		return false
	}
	return t.Path == "" || t.Path == s.Path || strings.HasPrefix(s.Path, t.Path+".")
}

// coveredBy returns the condition under which a write to lv is permitted by
// the unit's modifies clause (fresh memory is always permitted).
func (fc *FnCtx) coveredBy(lv *LV) Term {
	root := fc.unitCtx()
	alts := []Term{mkLe(root.entry.alloc, lv.Ref)}
	for _, t := range root.modTargets {
		if t.lv == nil || !lvCovers(t.lv, lv) {
			continue
		}
		if t.whole {
			return "true"
		}
		c := mkEq(t.lv.Ref, lv.Ref)
		if t.lv.HasIdx {
			if !lv.HasIdx {
				continue
			}
			c = mkAnd(c, mkEq(t.lv.Idx, lv.Idx))
		}
		alts = append(alts, c)
	}
	return mkOr(alts...)
}

func (fc *FnCtx) unitCtx() *FnCtx {
	c := fc
	for c.parent != nil {
		c = c.parent
	}
	return c
}

func (fc *FnCtx) frameChecked() bool {
	root := fc.unitCtx()
	return root.contract != nil && !root.modAll
}

func (fc *FnCtx) frameCheck(st *State, lv *LV, pos token.Pos) {
	if !fc.frameChecked() {
		return
	}
	goal := fc.coveredBy(lv)
	if goal == "true" {
		return
	}
	what := lv.Col
	if lv.Path != "" {
		what += "." + lv.Path
	}
	if lv.Path != "" && !lv.Elem && !strings.ContainsAny(lv.Col, "[]*:") {
		field := lv.Path
		if k := strings.IndexAny(field, ".["); k >= 0 {
			field = field[:k]
		}
		if !fc.e.specFieldNames()[field] {
			// a field no specification mentions: no obligation can depend on it
			fc.vc.note("write to " + lv.Col + "." + field + " in " + fc.name + ": the field is mentioned by no contract, so it is outside every frame")
			return
		}
	}
	fc.vc.oblige(st, "frame", "", "write "+what, fc.e.pos(pos), goal)
}

func (fc *FnCtx) frameCheckTarget(st *State, t modTarget, instr ssa.CallInstruction, site string) {
	if !fc.frameChecked() {
		return
	}
	root := fc.unitCtx()
	pos := "-"
	if instr != nil {
		pos = fc.e.pos(instr.Pos())
	}
	if t.lv == nil {
		for _, mt := range root.modTargets {
			if mt.lv == nil && mt.ghost == t.ghost && (mt.key == "" || mt.key == t.key) {
				return
			}
		}
		var alts []Term
		if t.key != "" {
			alts = append(alts, mkLe(root.entry.alloc, t.key)) // ghost state of an object allocated here
		}
		for _, mt := range root.modTargets {
			if mt.lv == nil && mt.ghost == t.ghost && t.key != "" {
				alts = append(alts, mkEq(mt.key, t.key))
			}
		}
		fc.vc.oblige(st, "frame", "", site+" modifies ghost "+t.ghost, pos, mkOr(alts...))
		return
	}
	if t.whole {
		for _, mt := range root.modTargets {
			if mt.lv != nil && mt.whole && lvCovers(mt.lv, t.lv) {
				return
			}
		}
		fc.vc.oblige(st, "frame", "", site+" modifies "+t.src, pos, "false")
		return
	}
	goal := fc.coveredBy(t.lv)
	if goal != "true" {
		fc.vc.oblige(st, "frame", "", site+" modifies "+t.src, pos, goal)
	}
}

// ---------- at-call anchors ----------

func (fc *FnCtx) atCall(st *State, instr ssa.CallInstruction, name string, args []SV, after bool, res SV) {
	if instr == nil {
		return
	}
	// the anchors are those of the unit's contract, also for a call that sits in an
	// uncontracted helper inlined into the unit
	owner := fc
	if fc.contract == nil {
		owner = fc.unitCtx()
		if owner == fc || owner.contract == nil || len(fc.inlinePath) == 0 {
			return
		}
	}
	ord := fc.ordOf(instr)
	if owner == fc && fc.parent != nil {
		ord = fc.callOrd[instr] // an inlined closure with anchors of its own counts locally
	}
	for _, a := range owner.contract.Ats {
		if a.Kind != "call" || !fc.e.anchorTargetMatches(a.Target, name) || (a.Ord >= 0 && a.Ord != ord) || a.After != after || ord == -2 {
			continue
		}
		a := a
		fc.vc.atMatched[fmt.Sprintf("%s:%d", a.C.File, a.C.Line)] = true
		var env *Env
		if owner == fc {
			env = fc.env(st, instr.Block())
			env.atInstr = instr
		} else {
			// evaluate in the unit's scope, at the call that led into the helper
			top := fc.inlinePath[0]
			env = owner.env(st, top.Block())
			env.atInstr = top
		}
		for i, v := range args {
			env.vars[fmt.Sprintf("arg%d", i)] = v
		}
		if cc := instr.Common(); cc != nil && !cc.IsInvoke() && staticTarget(cc.Value) == nil {
			// dynamic call: funcval is the function value being called
			if v, ok := fc.vals[cc.Value]; ok {
				env.vars["funcval"] = v
			}
		}
		if after {
			for k, v := range fc.lastGhost {
				env.vars["callee_"+k] = v
			}
			env.vars["result"] = res
			if tup, ok := res.Typ.(*types.Tuple); ok {
				off := 0
				for i := 0; i < tup.Len(); i++ {
					n := len(fc.e.shape(tup.At(i).Type()).Leaves)
					env.vars[fmt.Sprintf("result%d", i)] = SV{Typ: tup.At(i).Type(), T: res.T[off : off+n]}
					off += n
				}
			}
		}
		label := a.C.Label
		if label == "" {
			label = "at"
		}
		fc.vc.safeEval(fmt.Sprintf("%s:%d at call", a.C.File, a.C.Line), func() {
			switch a.What {
			case "set":
				fc.ghostAssign(st, env, a.SetLHS, a.C.E, instr)
			case "assume":
				t := env.evalBool(a.C.E)
				fc.vc.assume(st, t)
				fc.vc.note(fmt.Sprintf("ASSUME at call %s#%d in %s: %s", name, ord, fc.name, a.C.Src))
			default:
				t := env.evalBool(a.C.E)
				fc.vc.oblige(st, "assert", label, fmt.Sprintf("at call %s#%d:%s", name, ord, label), fc.e.pos(instr.Pos()), t)
				// an asserted fact is available afterwards (it is a lemma at this point)
				st.guard = fc.vc.define("g_lem", SBool, mkAnd(st.guard, t))
			}
		})
	}
}

// ghostAssign executes `set lhs = rhs` for a ghost variable or ghost field.
func (fc *FnCtx) ghostAssign(st *State, env *Env, lhs Expr, rhs Expr, instr ssa.Instruction) {
	fc.ghostAssignCond(st, env, lhs, rhs, instr, "true")
}

func (fc *FnCtx) ghostAssignCond(st *State, env *Env, lhs Expr, rhs Expr, instr ssa.Instruction, cond Term) {
	v := env.eval(rhs)
	if len(v.T) != 1 {
		env.fail("ghost assignment of a compound value")
	}
	if cond != "true" {
		cur := env.eval(lhs)
		v = SV{Typ: v.Typ, T: []Term{mkIte(cond, v.T[0], cur.T[0])}}
	}
	switch x := lhs.(type) {
	case *EIdent:
		gv, ok := fc.unitCtx().ghostVars[x.Name]
		if !ok {
			env.fail("set: %s is not a ghost variable", x.Name)
		}
		fc.ghostSet(st, "var."+x.Name, gv.Sort, "0", v.T[0])
		return
	case *ECall:
		if g, ok := fc.e.spec.Ghosts[x.Fn]; ok && len(x.Args) == 1 {
			k := env.eval(x.Args[0])
			key := k.T[len(k.T)-1]
			fc.ghostFrame(st, g.Name, key, instr)
			fc.ghostSet(st, g.Name, g.Sort, key, v.T[0])
			return
		}
	}
	env.fail("set: unsupported left-hand side %s", exprString(lhs))
}

// ---------- builtins ----------

func (fc *FnCtx) builtin(st *State, instr ssa.CallInstruction, c *ssa.CallCommon, b *ssa.Builtin, resT types.Type) SV {
	vc := fc.vc
	switch b.Name() {
	case "len":
		a := fc.val(c.Args[0])
		switch u := c.Args[0].Type().Underlying().(type) {
		case *types.Slice:
			return SV{Typ: resT, T: []Term{a.ln()}}
		case *types.Array:
			return SV{Typ: resT, T: []Term{num(u.Len())}}
		case *types.Pointer:
			if at, ok := u.Elem().Underlying().(*types.Array); ok {
				return SV{Typ: resT, T: []Term{num(at.Len())}}
			}
		case *types.Map:
			return fc.mapLen(st, c.Args[0].Type(), a.one(), resT)
		}
		v := vc.havoc(resT, "len", "")
		vc.assert(mkLe("0", v.one()))
		return v
	case "cap":
		a := fc.val(c.Args[0])
		if isSlice(c.Args[0].Type()) {
			return SV{Typ: resT, T: []Term{a.cp()}}
		}
		v := vc.havoc(resT, "cap", "")
		vc.assert(mkLe("0", v.one()))
		return v
	case "append":
		return fc.appendOp(st, instr, c, resT)
	case "copy":
		return fc.copyOp(st, instr, c, resT)
	case "close":
		ch := fc.val(c.Args[0]).one()
		closed := fc.ghostGet(st, "chanClosed", SBool, ch)
		fc.safety(st, "close-nil-chan", instr.Pos(), fc.valueSourceName(c.Args[0]), mkNot(mkEq(ch, "0")))
		fc.safety(st, "close-closed-chan", instr.Pos(), fc.valueSourceName(c.Args[0]), mkNot(closed))
		fc.ghostFrame(st, "chanClosed", ch, instr)
		fc.ghostSet(st, "chanClosed", SBool, ch, "true")
		return SV{Typ: resT}
	case "delete":
		fc.mapDelete(st, c.Args[0].Type(), fc.val(c.Args[0]).one(), fc.val(c.Args[1]), instr)
		return SV{Typ: resT}
	case "min", "max":
		a, bb := fc.val(c.Args[0]).one(), fc.val(c.Args[1]).one()
		if b.Name() == "min" {
			return SV{Typ: resT, T: []Term{mkIte(mkLe(a, bb), a, bb)}}
		}
		return SV{Typ: resT, T: []Term{mkIte(mkLe(a, bb), bb, a)}}
	case "print", "println":
		return SV{Typ: resT}
	}
	fc.unsupported("builtin " + b.Name())
	return vc.havoc(resT, "bi_"+b.Name(), st.alloc)
}

// elemLeafCols lists (column, sort) of the element columns for slices of elem.
func (fc *FnCtx) elemLeafCols(elem types.Type) (cols []string, sorts []Sort) {
	for _, l := range fc.e.shape(elem).Leaves {
		col := fc.e.elemCol(elem)
		if l.Path != "" {
			col += "." + l.Path
		}
		cols = append(cols, col)
		sorts = append(sorts, arrOf(arrOf(l.Sort)))
	}
	return
}

func (fc *FnCtx) appendOp(st *State, instr ssa.CallInstruction, c *ssa.CallCommon, resT types.Type) SV {
	vc := fc.vc
	s := fc.coerce(fc.val(c.Args[0]), resT)
	elem := resT.Underlying().(*types.Slice).Elem()
	var t SV
	if _, isStr := c.Args[1].Type().Underlying().(*types.Basic); isStr {
		// append([]byte, string...): arbitrary bytes of some length
		t = vc.havoc(resT, "strbytes", st.alloc)
	} else {
		t = fc.coerce(fc.val(c.Args[1]), resT)
	}
	n := t.ln()
	newLen := vc.define("alen", SInt, mkAdd(s.ln(), n))
	inplace := vc.define("inplace", SBool, mkLe(newLen, s.cp()))
	farr := fc.newRef(st, "app_arr")
	fcap := vc.fresh("app_cap", SInt)
	vc.assert(mkImp(st.guard, mkAnd(mkLe(newLen, fcap), mkLe(fcap, maxSliceLen))))
	res := SV{Typ: resT, T: []Term{
		vc.define("app_a", SInt, mkIte(inplace, s.arr(), farr)),
		vc.define("app_o", SInt, mkIte(inplace, s.off(), "0")),
		newLen,
		vc.define("app_c", SInt, mkIte(inplace, s.cp(), fcap)),
	}}
	// frame: an in-place append writes the tail of a possibly shared array
	if fc.frameChecked() && n != "0" {
		lv := &LV{Col: fc.e.elemCol(elem), Ref: s.arr(), Typ: types.NewArray(elem, 0), Elem: true}
		goal := mkOr(mkNot(inplace), mkEq(n, "0"), fc.coveredBy(lv))
		if goal != "true" {
			vc.oblige(st, "frame", "", "append in place "+fc.valueSourceName(c.Args[0]), fc.e.pos(instr.Pos()), goal)
		}
	}
	cols, sorts := fc.elemLeafCols(elem)
	for i, col := range cols {
		h := vc.colGet(st, col, sorts[i])
		na := vc.fresh("app_A", elemOf(sorts[i]))
		srcS := mkSel(h, s.arr())
		srcT := mkSel(h, t.arr())
		j := fmt.Sprintf("j!%d", vc.n)
		vc.n++
		// prefix preserved
		vc.assume(st, fmt.Sprintf("(forall ((%s Int)) (=> (and (<= 0 %s) (< %s %s)) (= (select %s (+ %s %s)) (select %s (+ %s %s)))))",
			j, j, j, s.ln(), na, res.off(), j, srcS, s.off(), j))
		// appended elements
		if isNum(n) && numVal(n).IsInt64() && numVal(n).Int64() <= 4 {
			for k := int64(0); k < numVal(n).Int64(); k++ {
				vc.assume(st, mkEq(mkSel(na, mkAdd(mkAdd(res.off(), s.ln()), num(k))), mkSel(srcT, mkAdd(t.off(), num(k)))))
			}
		} else {
			// indexed from the destination side (same trigger shape as the prefix fact) ...
			vc.assume(st, fmt.Sprintf("(forall ((%s Int)) (=> (and (<= %s %s) (< %s %s)) (= (select %s (+ %s %s)) (select %s (+ %s (- %s %s))))))",
				j, s.ln(), j, j, newLen, na, res.off(), j, srcT, t.off(), j, s.ln()))
			// ... and from the source side (trigger on the source read)
			vc.assume(st, fmt.Sprintf("(forall ((%s Int)) (=> (and (<= 0 %s) (< %s %s)) (= (select %s (+ (+ %s %s) %s)) (select %s (+ %s %s)))))",
				j, j, j, n, na, res.off(), s.ln(), j, srcT, t.off(), j))
		}
		// in place: everything outside the appended window is unchanged
		vc.assume(st, mkImp(inplace, fmt.Sprintf("(forall ((%s Int)) (=> (or (< %s (+ %s %s)) (>= %s (+ %s %s))) (= (select %s %s) (select %s %s))))",
			j, j, s.off(), s.ln(), j, s.off(), newLen, na, j, srcS, j)))
		vc.colSet(st, col, sorts[i], mkSto(h, res.arr(), na))
	}
	return res
}

func (fc *FnCtx) copyOp(st *State, instr ssa.CallInstruction, c *ssa.CallCommon, resT types.Type) SV {
	vc := fc.vc
	d := fc.val(c.Args[0])
	if !isSlice(c.Args[1].Type()) {
		// copy(dst, string)
		vc.note("copy from string havocked in " + fc.name)
		return vc.havoc(resT, "copy", "")
	}
	s := fc.val(c.Args[1])
	elem := c.Args[0].Type().Underlying().(*types.Slice).Elem()
	n := vc.define("ncopy", SInt, mkIte(mkLe(d.ln(), s.ln()), d.ln(), s.ln()))
	if fc.frameChecked() {
		lv := &LV{Col: fc.e.elemCol(elem), Ref: d.arr(), Typ: types.NewArray(elem, 0), Elem: true}
		goal := mkOr(mkEq(n, "0"), fc.coveredBy(lv))
		if goal != "true" {
			vc.oblige(st, "frame", "", "copy into "+fc.valueSourceName(c.Args[0]), fc.e.pos(instr.Pos()), goal)
		}
	}
	cols, sorts := fc.elemLeafCols(elem)
	for i, col := range cols {
		h := vc.colGet(st, col, sorts[i])
		na := vc.fresh("cp_A", elemOf(sorts[i]))
		j := fmt.Sprintf("j!%d", vc.n)
		vc.n++
		vc.assume(st, fmt.Sprintf("(forall ((%s Int)) (=> (and (<= 0 %s) (< %s %s)) (= (select %s (+ %s %s)) (select %s (+ %s %s)))))",
			j, j, j, n, na, d.off(), j, mkSel(h, s.arr()), s.off(), j))
		vc.assume(st, fmt.Sprintf("(forall ((%s Int)) (=> (or (< %s %s) (>= %s (+ %s %s))) (= (select %s %s) (select %s %s))))",
			j, j, d.off(), j, d.off(), n, na, j, mkSel(h, d.arr()), j))
		vc.colSet(st, col, sorts[i], mkSto(h, d.arr(), na))
	}
	return SV{Typ: resT, T: []Term{n}}
}

// ---------- ghost columns ----------

func (fc *FnCtx) ghostGet(st *State, name string, s Sort, key Term) Term {
	col := "ghost." + name
	return fc.vc.readCol(fc.vc.colGet(st, col, arrOf(s)), key, "", 0)
}

func (fc *FnCtx) ghostSet(st *State, name string, s Sort, key Term, v Term) {
	col := "ghost." + name
	h := fc.vc.colGet(st, col, arrOf(s))
	fc.vc.colSetStore(st, col, arrOf(s), h, key, "", v)
}

// ghostFrame checks that a ghost update is permitted by the unit's modifies.
func (fc *FnCtx) ghostFrame(st *State, name string, key Term, instr ssa.Instruction) {
	if !fc.frameChecked() {
		return
	}
	root := fc.unitCtx()
	alts := []Term{mkLe(root.entry.alloc, key)}
	for _, mt := range root.modTargets {
		if mt.lv == nil && mt.ghost == name {
			if mt.key == "" {
				return
			}
			alts = append(alts, mkEq(mt.key, key))
		}
	}
	pos := "-"
	if instr != nil {
		pos = fc.e.pos(instr.Pos())
	}
	fc.vc.oblige(st, "frame", "", "ghost "+name, pos, mkOr(alts...))
}

// ---------- defers / go ----------

func (fc *FnCtx) runDefers(st *State) {
	// deferred calls run in reverse order of registration; each one only if its
	// Defer instruction was executed on this path.
	var ds []*ssa.Defer
	for _, b := range fc.fn.Blocks {
		for _, in := range b.Instrs {
			if d, ok := in.(*ssa.Defer); ok {
				ds = append(ds, d)
			}
		}
	}
	sort.SliceStable(ds, func(i, j int) bool { return ds[i].Pos() < ds[j].Pos() })
	for i := len(ds) - 1; i >= 0; i-- {
		d := ds[i]
		g, registered := fc.deferAt[d]
		if !registered {
			continue
		}
		if _, inLoop := fc.inAnyLoop(d.Block()); inLoop {
			fc.unsupported("defer inside a loop")
			continue
		}
		// run under guard st.guard && g, then merge with the path that skipped it
		run := st.clone()
		run.guard = fc.vc.define("g_defer", SBool, mkAnd(st.guard, g))
		skip := st.clone()
		skip.guard = fc.vc.define("g_nodefer", SBool, mkAnd(st.guard, mkNot(g)))
		fc.call(run, d, d.Common())
		merged := fc.vc.joinStates([]*State{run, skip}, "defer")
		*st = *merged
	}
}

func (fc *FnCtx) inAnyLoop(b *ssa.BasicBlock) (*ssa.BasicBlock, bool) {
	for h := range fc.loopOrd {
		if fc.loopBody(h)[b] {
			return h, true
		}
	}
	return nil, false
}

func (fc *FnCtx) goStmt(st *State, x *ssa.Go) {
	// the spawned function is a separate verification root; here only the
	// ghost "running" bookkeeping of at-call anchors applies.
	c := x.Common()
	var args []SV
	for _, a := range c.Args {
		args = append(args, fc.val(a))
	}
	name := fc.callName[x]
	fc.atCall(st, x, name, args, false, SV{})
	fc.vc.note("go statement in " + fc.name + " (" + name + "): spawned function verified as a separate root")
}

// ---------- invoke ----------

func (fc *FnCtx) invoke(st *State, instr ssa.CallInstruction, c *ssa.CallCommon, resT types.Type) SV {
	vc := fc.vc
	e := fc.e
	recv := fc.val(c.Value)
	it := c.Value.Type()
	mname := c.Method.Name()
	fc.safety(st, "nil-interface", instr.Pos(), fc.valueSourceName(c.Value)+"."+mname, mkNot(mkEq(recv.tag(), "0")))
	var args []SV
	for _, a := range c.Args {
		args = append(args, fc.val(a))
	}
	iname := e.typeName(it)
	// package interface with known implementers: dispatch
	impls := e.implementers(it.Underlying().(*types.Interface))
	sealed := e.sealedTags(it) != nil
	_, named := it.(*types.Named)
	if named && it.(*types.Named).Obj().Pkg() == e.pkg.Types && (sealed || len(impls) > 0) && e.spec.Callbacks[iname+"."+mname] == nil {
		type alt struct {
			guard Term
			st    *State
			res   SV
		}
		var alts []alt
		var covered []Term
		for _, T := range impls {
			sel := e.prog.MethodSets.MethodSet(T).Lookup(c.Method.Pkg(), mname)
			if sel == nil {
				continue
			}
			m := e.prog.MethodValue(sel)
			if m == nil {
				continue
			}
			cond := mkEq(recv.tag(), num(int64(e.tagOf(T))))
			covered = append(covered, cond)
			bst := st.clone()
			bst.guard = vc.define("g_disp", SBool, mkAnd(st.guard, cond))
			// receiver value for the concrete method
			target := m
			var rv SV
			recvT := m.Signature.Recv().Type()
			if m.Synthetic != "" && strings.Contains(m.Synthetic, "wrapper") {
				// pointer-receiver wrapper of a value method: call the value method on *p
				if pt, ok := T.(*types.Pointer); ok {
					if vsel := e.prog.MethodSets.MethodSet(pt.Elem()).Lookup(c.Method.Pkg(), mname); vsel != nil {
						target = e.prog.MethodValue(vsel)
						rv = vc.load(bst, e.rootLV(recv.ival(), pt.Elem()))
						recvT = pt.Elem()
					}
				}
			}
			if rv.T == nil && rv.Typ == nil {
				rv = fc.unbox(bst, recv.ival(), T)
			}
			_ = recvT
			r := fc.callStatic(bst, instr, target, append([]SV{rv}, args...), nil, resT)
			alts = append(alts, alt{cond, bst, r})
		}
		if !sealed {
			// foreign implementation: arbitrary result
			cond := mkNot(mkOr(covered...))
			bst := st.clone()
			bst.guard = vc.define("g_foreign", SBool, mkAnd(st.guard, cond))
			vc.note("foreign implementation of " + iname + "." + mname + " havocked in " + fc.name)
			r := vc.havoc(resT, "foreign_"+mname, bst.alloc)
			if cb := e.spec.Callbacks[iname+"."+mname+":foreign"]; cb != nil {
				r = fc.applyContract(bst, instr, cb, nil, append([]SV{recv}, args...), mname, resT, c)
			}
			alts = append(alts, alt{cond, bst, r})
		}
		var sts []*State
		for _, a := range alts {
			sts = append(sts, a.st)
		}
		merged := vc.joinStates(sts, "disp_"+mname)
		out := SV{Typ: resT}
		for _, l := range e.shape(resT).Leaves {
			out.T = append(out.T, vc.fresh("r_"+mname+"_"+l.Path, l.Sort))
		}
		for _, a := range alts {
			if !a.st.dead {
				vc.defEq(a.st.guard, out, a.res)
			}
		}
		*st = *merged
		return out
	}
	// callback / extern interface contract
	key := iname + "." + mname
	all := append([]SV{recv}, args...)
	if cb := e.spec.Callbacks[key]; cb != nil {
		return fc.applyContract(st, instr, cb, nil, all, mname, resT, c)
	}
	if ex := e.spec.Externs[key]; ex != nil {
		return fc.applyContract(st, instr, ex, nil, all, mname, resT, c)
	}
	if r, ok := fc.intrinsicInvoke(st, instr, key, recv, args, resT); ok {
		return r
	}
	vc.note("interface method " + key + " has no contract (used in " + fc.name + ")")
	pos := "-"
	if instr != nil {
		pos = fc.e.pos(instr.Pos())
	}
	fc.vc.oblige(st, "extern", "", "call of interface method "+key+" which has no contract", pos, "false")
	return vc.havoc(resT, "inv_"+mname, st.alloc)
}
