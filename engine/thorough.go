package main

// Thorough-tier extras: (1) dead-path audit of every unit of the property,
// (2) must-fail self-test: the revert of every `fix:` commit recorded for the
// property and every seeded change filed under /verif/seeded for it are applied
// to a scratch copy of /repo (outside /repo and /verif, removed afterwards) and
// the quick check of the property is run against the copy; it must report a
// violation. The outcome goes into the evidence file; it does not change the
// verdict on /repo itself.

import (
	"encoding/json"
	"fmt"
	"os"
	"os/exec"
	"path/filepath"
	"sort"
	"strings"
	"sync"
)

type mutantResult struct {
	Name       string   `json:"mutant"`
	Killed     bool     `json:"reported"`
	Violations int      `json:"violations"`
	By         []string `json:"obligations,omitempty"`
	Note       string   `json:"note,omitempty"`
}

func scratchCopy(repo string) (string, error) {
	dir, err := os.MkdirTemp("", "cbv-mutant-")
	if err != nil {
		return "", err
	}
	cmd := exec.Command("sh", "-c", fmt.Sprintf("cd %q && git ls-files -z | xargs -0 cp --parents -t %q", repo, dir))
	if out, err := cmd.CombinedOutput(); err != nil {
		os.RemoveAll(dir)
		return "", fmt.Errorf("copy: %v %s", err, out)
	}
	return dir, nil
}

func (e *Engine) runMutant(verif, prop, name, patch string, reverse bool) mutantResult {
	res := mutantResult{Name: name}
	dir, err := scratchCopy(e.repo)
	if err != nil {
		res.Note = err.Error()
		return res
	}
	defer os.RemoveAll(dir)
	vdir, err := os.MkdirTemp("", "cbv-mutant-v-")
	if err != nil {
		res.Note = err.Error()
		return res
	}
	defer os.RemoveAll(vdir)
	os.Symlink(filepath.Join(verif, "spec"), filepath.Join(vdir, "spec"))
	if b, err := os.ReadFile(filepath.Join(verif, "KNOWN_FINDINGS.txt")); err == nil {
		os.WriteFile(filepath.Join(vdir, "KNOWN_FINDINGS.txt"), b, 0o644)
	}
	args := []string{"-p1", "-s", "-d", dir}
	if reverse {
		args = append(args, "-R")
	}
	pc := exec.Command("patch", args...)
	pc.Stdin = strings.NewReader(patch)
	if out, err := pc.CombinedOutput(); err != nil {
		res.Note = "patch does not apply: " + firstLines(string(out), 2)
		return res
	}
	self, _ := os.Executable()
	cmd := exec.Command(self, "check", "-repo", dir, "-verif", vdir, "-prop", prop, "-tier", "quick")
	out, _ := cmd.CombinedOutput()
	for _, l := range strings.Split(string(out), "\n") {
		if strings.HasPrefix(l, "VIOLATION") {
			res.Violations++
			if k := strings.Index(l, "obligation=\""); k >= 0 && len(res.By) < 4 {
				rest := l[k+12:]
				if e := strings.Index(rest, "\""); e >= 0 {
					res.By = append(res.By, rest[:e])
				}
			}
		}
	}
	if cmd.ProcessState != nil && cmd.ProcessState.ExitCode() >= 2 {
		res.Note = "check could not run on the mutant: " + firstLines(string(out), 2)
	}
	res.Killed = res.Violations > 0
	return res
}

// selfTest runs the canaries and seeded mutants of one property.
func (e *Engine) selfTest(verif, prop string) []mutantResult {
	type job struct {
		name, patch string
		reverse     bool
	}
	var jobs []job
	seen := map[string]bool{}
	for _, f := range e.findings {
		if f.Kind != "fixed" || f.Property != prop {
			continue
		}
		w := strings.Fields(f.Raw)
		if len(w) < 3 {
			continue
		}
		commit := w[2]
		if seen[commit] {
			continue
		}
		seen[commit] = true
		out, err := exec.Command("git", "-C", e.repo, "diff", commit+"^", commit, "--", "*.go", ":!*_verif.go").Output()
		if err != nil || len(out) == 0 {
			continue
		}
		jobs = append(jobs, job{"revert of fix " + commit, string(out), true})
	}
	dirs, _ := filepath.Glob(filepath.Join(verif, "seeded", "*", "meta.json"))
	sort.Strings(dirs)
	for _, mf := range dirs {
		var meta struct {
			ID     string `json:"id"`
			Breaks string `json:"breaks_property"`
			Also   []string `json:"also_reported_by"`
		}
		b, err := os.ReadFile(mf)
		if err != nil || json.Unmarshal(b, &meta) != nil {
			continue
		}
		mine := meta.Breaks == prop
		for _, a := range meta.Also {
			if a == prop {
				mine = true
			}
		}
		if !mine {
			continue
		}
		p, err := os.ReadFile(filepath.Join(filepath.Dir(mf), "patch.diff"))
		if err != nil {
			continue
		}
		jobs = append(jobs, job{"seeded change " + meta.ID, string(p), false})
	}
	results := make([]mutantResult, len(jobs))
	var wg sync.WaitGroup
	sem := make(chan struct{}, 3)
	for i, j := range jobs {
		wg.Add(1)
		go func(i int, j job) {
			defer wg.Done()
			sem <- struct{}{}
			defer func() { <-sem }()
			results[i] = e.runMutant(verif, prop, j.name, j.patch, j.reverse)
		}(i, j)
	}
	wg.Wait()
	return results
}

// externSanity executes the functional extern contracts against the installed
// standard library (spec/extern_sanity_test.go.txt, injected with -overlay).
func (e *Engine) externSanity(verif string) (bool, string) {
	src := filepath.Join(verif, "spec", "extern_sanity_test.go.txt")
	if _, err := os.Stat(src); err != nil {
		return true, "no extern sanity test present"
	}
	dir, err := os.MkdirTemp("", "cbv-extern-")
	if err != nil {
		return true, "could not create a scratch directory: " + err.Error()
	}
	defer os.RemoveAll(dir)
	ov := map[string]map[string]string{"Replace": {filepath.Join(e.repo, "zz_cbv_extern_sanity_test.go"): src}}
	ob, _ := json.Marshal(ov)
	ovFile := filepath.Join(dir, "ov.json")
	os.WriteFile(ovFile, ob, 0o644)
	cmd := exec.Command("sh", "-c", fmt.Sprintf("cd %s && go test -overlay %s -vet=off -count=1 -timeout 120s -run '^TestCbvExternSanity$' . 2>&1 | tail -15", e.repo, ovFile))
	cmd.Env = append(os.Environ(), "GOFLAGS=-mod=mod", "GOPROXY=off", "GOSUMDB=off", "GOTOOLCHAIN=local")
	out, _ := cmd.CombinedOutput()
	s := strings.TrimSpace(string(out))
	return strings.HasPrefix(lastLine(s), "ok"), s
}

func lastLine(s string) string {
	l := strings.Split(strings.TrimSpace(s), "\n")
	return l[len(l)-1]
}
