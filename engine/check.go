package main

// `cbv check`: decide one property — build and discharge the obligations of
// its cone of contract units, write evidence, report violations.

import (
	"encoding/json"
	"fmt"
	"golang.org/x/tools/go/ssa"
	"os"
	"path/filepath"
	"sort"
	"strconv"
	"strings"
	"time"
)

type PropMap struct {
	Units      []string `json:"units"`
	Sweep      bool     `json:"sweep"`       // every function of the package (safety sweep)
	Only       []string `json:"only"`        // optional: restrict to obligation kinds
	OnlyLabels []string `json:"only_labels"` // with only: postconditions with these labels count as well
	NotDecided []string `json:"not_decided"` // clauses of the property no obligation covers
	Trusted    []string `json:"trusted"`
	Bounded    []string `json:"bounded"`
	Claim      string   `json:"claim"`
	// AutoCallers: every function that invokes one of these interface methods
	// (e.g. "net.Conn.Write") is added to the units, so that a new call site is
	// covered without editing the map.
	AutoCallers []string `json:"auto_callers"`
}

type Finding struct {
	Kind       string // finding | fixed
	Property   string
	Obligation string // prefix match on obligation name
	Region     string // spec expression over the function's inputs delimiting the finding
	RegionE    Expr
	What       string
	Raw        string
}

func loadFindings(path string) []Finding {
	data, err := os.ReadFile(path)
	if err != nil {
		return nil
	}
	var out []Finding
	for _, l := range strings.Split(string(data), "\n") {
		l = strings.TrimSpace(l)
		if l == "" || strings.HasPrefix(l, "#") {
			continue
		}
		f := Finding{Raw: l}
		switch {
		case strings.HasPrefix(l, "finding:"):
			f.Kind = "finding"
		case strings.HasPrefix(l, "fixed:"):
			f.Kind = "fixed"
		default:
			continue
		}
		for _, w := range strings.Fields(l) {
			if strings.HasPrefix(w, "property=") {
				f.Property = w[len("property="):]
			}
		}
		if k := strings.Index(l, "obligation=\""); k >= 0 {
			rest := l[k+len("obligation=\""):]
			if e := strings.Index(rest, "\""); e >= 0 {
				f.Obligation = rest[:e]
			}
		}
		if k := strings.Index(l, "region=\""); k >= 0 {
			rest := l[k+len("region=\""):]
			if e := strings.Index(rest, "\""); e >= 0 {
				f.Region = rest[:e]
				if ex, err := parseExpr(f.Region); err == nil {
					f.RegionE = ex
				} else {
					fmt.Fprintln(os.Stderr, "KNOWN_FINDINGS: bad region:", err)
				}
			}
		}
		if k := strings.Index(l, "what="); k >= 0 {
			f.What = strings.TrimSpace(l[k+len("what="):])
		}
		out = append(out, f)
	}
	return out
}

type Evidence struct {
	PropertyID  string                 `json:"property_id"`
	Tier        string                 `json:"tier"`
	Seed        int                    `json:"seed"`
	Level       string                 `json:"level"`
	Coverage    map[string]interface{} `json:"coverage"`
	Assumptions []string               `json:"assumptions"`
	WallS       float64                `json:"wall_s"`
	Violations  int                    `json:"violations"`
}

func (e *Engine) checkProperty(verif, prop, tier string, t0 time.Time) int {
	seed := 0
	if s := os.Getenv("VERIF_SEED"); s != "" {
		seed, _ = strconv.Atoi(s)
	}
	var pm map[string]*PropMap
	data, err := os.ReadFile(filepath.Join(verif, "spec", "properties.map.json"))
	if err != nil {
		fmt.Fprintln(os.Stderr, "properties.map.json:", err)
		return 3
	}
	if err := json.Unmarshal(data, &pm); err != nil {
		fmt.Fprintln(os.Stderr, "properties.map.json:", err)
		return 3
	}
	p := pm[prop]
	if p == nil {
		fmt.Fprintln(os.Stderr, "property not mapped:", prop)
		return 3
	}
	findings := loadFindings(filepath.Join(verif, "KNOWN_FINDINGS.txt"))
	e.findings = findings

	names := append([]string{}, p.Units...)
	missing := []string{}
	if p.Sweep {
		names = e.sweepRoots()
	} else {
		var keep []string
		for _, n := range names {
			if nn, ok := e.renamed[n]; ok {
				n = nn // the contract was re-bound to the renamed function
			}
			if _, ok := e.funcs[n]; !ok && !strings.HasPrefix(n, "bv:") && !strings.HasPrefix(n, "own:") && !strings.HasPrefix(n, "model:") {
				missing = append(missing, n)
				continue
			}
			keep = append(keep, n)
		}
		names = keep
	}
	for _, ac := range p.AutoCallers {
		for _, n := range e.callersOf(ac) {
			have := false
			for _, x := range names {
				if x == n {
					have = true
				}
			}
			if !have {
				names = append(names, n)
			}
		}
	}
	opts := SolveOpts{TimeoutMs: 5000, RecheckMs: 20000}
	if tier == "thorough" {
		opts.RecheckMs = 60000
		opts.AllSolvers = true
		opts.MaxRecheck = 40
	}
	results := e.runUnits(names, opts)

	replayDir := filepath.Join(verif, "replay", prop)
	os.RemoveAll(replayDir)
	total, discharged, violations := 0, 0, 0
	byBackend := map[string]int{}
	var solverTotal, solverMax float64
	notes := map[string]bool{}
	for old, nn := range e.renamed {
		notes["contract written for "+old+" re-bound to "+nn+" (function renamed or closures renumbered; recognised by its header)"] = true
	}
	var samples []interface{}
	var funcsUnderContract, funcsSafetyOnly []string
	var knownOut []string
	var violationLines []string
	candTotal, candKept := 0, 0
	covers, coversOK := 0, 0
	report := func(obName, unit, status, detail, model, pos string) {
		// known finding?
		for _, f := range findings {
			if f.Kind == "finding" && f.Property == prop && f.Obligation != "" && strings.HasPrefix(obName, f.Obligation) && !strings.Contains(obName, "~outside-region") {
				line := fmt.Sprintf("KNOWN-FINDING: property=%s %s [obligation %s]", prop, f.What, obName)
				knownOut = append(knownOut, line)
				// a listed finding is not part of the proof claim: the claim is the
				// same obligation restricted to the outside of the finding's region
				total--
				return
			}
		}
		violations++
		os.MkdirAll(replayDir, 0o755)
		rp := filepath.Join(replayDir, sanitize(obName)+".json")
		rec := map[string]interface{}{
			"property": prop, "obligation": obName, "unit": unit, "position": pos, "status": status,
			"solver_output": detail, "model": model,
		}
		suffix := "no-failing-input-found"
		if model != "" {
			if ok, info := e.replayModel(verif, prop, unit, obName, model, rec); ok {
				suffix = "replayed"
				rec["replay"] = info
			} else if info != "" {
				rec["replay"] = info
			}
		}
		b, _ := json.MarshalIndent(rec, "", " ")
		os.WriteFile(rp, b, 0o644)
		violationLines = append(violationLines, fmt.Sprintf("VIOLATION property=%s replay=%s obligation=%q status=%s %s", prop, rp, obName, status, suffix))
	}
	for _, n := range missing {
		total++
		report("anchor["+n+"]", n, "missing", "contracted function "+n+" does not exist in /repo any more", "", "-")
	}
	for _, r := range results {
		if r.Err != nil {
			total++
			report("engine["+r.Name+"]", r.Name, "error", r.Err.Error(), "", "-")
			continue
		}
		if r.Trusted {
			continue
		}
		if r.HasSpec {
			funcsUnderContract = append(funcsUnderContract, r.Name)
		} else {
			funcsSafetyOnly = append(funcsSafetyOnly, r.Name)
		}
		for n := range r.VC.notes {
			notes[n] = true
		}
		candTotal += len(r.VC.cands)
		for _, v := range r.VC.vacuous {
			total++
			report("vacuous-premise["+r.Name+" "+v+"]", r.Name, "vacuous", "the premise of clause "+v+" of "+r.Name+" is unsatisfiable at every place it is checked: the clause proves nothing", "", "-")
		}
		covers++
		if r.VC.coverSt == "unsat" {
			total++
			report("vacuity["+r.Name+"]", r.Name, "vacuous", "the hypotheses of "+r.Name+" (requires, assumed contracts, invariants) are contradictory: no return is reachable", "", "-")
		} else {
			coversOK++
		}
		for _, o := range r.VC.obligs {
			if o.Cand >= 0 {
				continue
			}
			if len(p.Only) > 0 {
				keep := false
				for _, k := range p.Only {
					if o.Kind == k {
						keep = true
					}
				}
				if o.Kind == "ensures" {
					for _, l := range p.OnlyLabels {
						if o.Label == l {
							keep = true
						}
					}
				}
				if !keep {
					continue
				}
			}
			total++
			if o.Status == "unsat" {
				discharged++
				byBackend[o.Solver]++
				solverTotal += o.TimeS
				if o.TimeS > solverMax {
					solverMax = o.TimeS
				}
				if len(samples) < 6 && o.Solver != "trivial" && (len(samples) < 3 || o.Kind == "ensures") {
					samples = append(samples, map[string]interface{}{"obligation": o.Name, "verdict": "unsat (discharged)", "backend": o.Solver, "time_s": round3(o.TimeS), "pos": o.Pos})
				}
				continue
			}
			report(o.Name, r.Name, o.Status, o.Note, o.Model, o.Pos)
		}
	}
	_ = candKept
	sort.Strings(funcsUnderContract)
	sort.Strings(funcsSafetyOnly)
	var assumptions []string
	for n := range notes {
		assumptions = append(assumptions, n)
	}
	sort.Strings(assumptions)
	assumptions = append(assumptions,
		"Go semantics as given by go/ssa and this engine's translation of SSA to SMT (DESIGN.md appendix A)",
		"machine integers modelled exactly as wrapped mathematical integers; int is 64 bit; no slice longer than 2^56",
		"SMT solvers z3 4.8.12, z3 5.1.0, cvc5 1.0.3 are sound")
	for _, t := range p.Trusted {
		assumptions = append(assumptions, t)
	}
	if len(samples) == 0 {
		samples = append(samples, map[string]interface{}{"note": "no non-trivial obligation discharged"})
	}
	for _, l := range knownOut {
		fmt.Println(l)
	}
	for _, l := range violationLines {
		fmt.Println(l)
	}
	ev := Evidence{PropertyID: prop, Tier: tier, Seed: seed, Level: "proof", Assumptions: assumptions,
		WallS: round3(time.Since(t0).Seconds()), Violations: violations}
	ev.Coverage = map[string]interface{}{
		"obligations":               total,
		"discharged":                discharged,
		"checker_cmd":               fmt.Sprintf("/verif/bin/cbv check -prop %s -tier %s (go/ssa VC generation over /repo working tree with -tags=verif; z3-new/z3/cvc5)", prop, tier),
		"trusted_base":              append([]string{"go/ssa (x/tools v0.29.0)", "cbv SSA->SMT translation", "z3 5.1.0", "z3 4.8.12", "cvc5 1.0.3", "assumed extern contracts in /verif/spec/externs.spec"}, p.Trusted...),
		"functions_under_contract":  funcsUnderContract,
		"functions_safety_only":     funcsSafetyOnly,
		"obligations_by_backend":    byBackend,
		"solver_time_s":             round3(solverTotal),
		"solver_time_max_s":         round3(solverMax),
		"known_findings":            knownOut,
		"known_finding_obligations": len(knownOut),
		"bounded_standins":          p.Bounded,
		"not_decided":               p.NotDecided,
		"houdini_candidates":        candTotal,
		"vacuity":                   map[string]int{"cover_checks": covers, "passed": coversOK},
		"samples":                   samples,
		"claim":                     p.Claim,
	}
	if tier == "thorough" {
		// dead-path audit (informational): checked paths the hypotheses do not admit
		var dead []string
		for _, r := range results {
			if r.Err != nil || r.VC == nil || strings.Contains(r.Name, ":") {
				continue
			}
			for _, d := range deadGuards(r.VC, r.Flags, 1500) {
				if !strings.Contains(d, "#safety[panic") {
					if k := strings.Index(d, " guard "); k >= 0 {
						d = d[:k]
					}
					dead = append(dead, d)
				}
			}
		}
		sort.Strings(dead)
		if dead == nil {
			dead = []string{}
		}
		ev.Coverage["dead_paths_other_than_select_panics"] = dead
		okES, outES := e.externSanity(verif)
		ev.Coverage["extern_contract_sanity"] = map[string]interface{}{"passed": okES, "output": outES,
			"what": "the functional assumed contracts of spec/externs.spec (encoding/binary, bytes, net/netip, time.Duration, host/port text) executed against the installed standard library on 20000 random inputs"}
		if !okES {
			violations++
			os.MkdirAll(replayDir, 0o755)
			rp := filepath.Join(replayDir, "extern_contract_sanity.json")
			rb, _ := json.MarshalIndent(map[string]interface{}{"property": prop, "obligation": "extern[contract sanity]", "output": outES}, "", " ")
			os.WriteFile(rp, rb, 0o644)
			fmt.Printf("VIOLATION property=%s replay=%s obligation=\"extern[an assumed contract of a dependency is refuted by the installed standard library]\" status=refuted no-failing-input-found\n", prop, rp)
			ev.Violations = violations
		}
		if os.Getenv("CBV_NO_SELFTEST") == "" {
			mr := e.selfTest(verif, prop)
			killed := 0
			for _, m := range mr {
				if m.Killed {
					killed++
				}
			}
			ev.Coverage["mutants"] = map[string]interface{}{"total": len(mr), "reported": killed, "results": mr,
				"what": "reverts of the fix: commits recorded for this property and the seeded changes under /verif/seeded filed for it, each applied to a scratch copy of /repo and checked with the quick tier"}
			fmt.Printf("selftest property=%s mutants=%d reported=%d\n", prop, len(mr), killed)
			for _, m := range mr {
				if !m.Killed {
					fmt.Printf("selftest NOT-REPORTED %s %s\n", m.Name, m.Note)
				}
			}
		}
	}
	os.MkdirAll(filepath.Join(verif, "evidence"), 0o755)
	b, _ := json.MarshalIndent(ev, "", " ")
	os.WriteFile(filepath.Join(verif, "evidence", prop+".json"), b, 0o644)
	fmt.Printf("property=%s tier=%s units=%d obligations=%d discharged=%d known-findings=%d violations=%d wall=%.1fs\n",
		prop, tier, len(results), total, discharged, len(knownOut), violations, time.Since(t0).Seconds())
	if total == 0 {
		fmt.Printf("VIOLATION property=%s replay=%s obligation=\"vacuity[no obligations generated]\" no-failing-input-found\n", prop, replayDir)
		return 1
	}
	if violations > 0 {
		return 1
	}
	return 0
}

func round3(f float64) float64 { return float64(int(f*1000+0.5)) / 1000 }

// replayModel is filled in by replay.go

// sweepRoots: every function of the package that is a verification root: all
// top-level functions and methods, closures with their own contract, closures
// started with `go`. Other closures are checked where they are inlined (every
// call, defer and sync.Once.Do of them is inside their parent).
func (e *Engine) sweepRoots() []string {
	goTargets := map[*ssa.Function]bool{}
	for _, fn := range e.funcs {
		for _, b := range fn.Blocks {
			for _, in := range b.Instrs {
				if g, ok := in.(*ssa.Go); ok {
					switch v := g.Common().Value.(type) {
					case *ssa.MakeClosure:
						goTargets[v.Fn.(*ssa.Function)] = true
					case *ssa.Function:
						goTargets[v] = true
					}
				}
			}
		}
	}
	// unexported helpers without a contract that are called from inside the package
	// are verified where they are inlined, with the arguments they really get
	called := map[*ssa.Function]bool{}
	for _, fn := range e.funcs {
		for _, b := range fn.Blocks {
			for _, in := range b.Instrs {
				if ci, ok := in.(ssa.CallInstruction); ok {
					if _, isGo := in.(*ssa.Go); isGo {
						continue
					}
					if t, ok := ci.Common().Value.(*ssa.Function); ok && !ci.Common().IsInvoke() {
						if t.Origin() != nil {
							t = t.Origin()
						}
						called[t] = true
					}
				}
			}
		}
	}
	var out []string
	for _, n := range e.funcNames() {
		fn := e.funcs[n]
		c := e.spec.Contracts[n]
		modular := c != nil && (len(c.Ensures) > 0 || len(c.Requires) > 0 || c.HasMod || c.Trusted)
		if fn.Parent() != nil && !modular && !goTargets[fn] {
			continue // inlined wherever it is called (loop annotations, if any, apply there)
		}
		if c == nil && fn.Parent() == nil && !goTargets[fn] && called[fn] && fn.Object() != nil && !fn.Object().Exported() {
			continue
		}
		if strings.HasPrefix(n, "init") {
			continue
		}
		out = append(out, n)
	}
	out = append(out, "bv:attrsBitmap", "own:fields", "model:errors")
	return out
}

// callersOf lists the root functions containing an invoke of iface.method
// (closures are attributed to their nearest root).
func (e *Engine) callersOf(key string) []string {
	roots := map[string]bool{}
	for _, r := range e.sweepRoots() {
		roots[r] = true
	}
	out := map[string]bool{}
	for n, fn := range e.funcs {
		for _, b := range fn.Blocks {
			for _, in := range b.Instrs {
				ci, ok := in.(ssa.CallInstruction)
				if !ok || !ci.Common().IsInvoke() {
					continue
				}
				c := ci.Common()
				if e.typeName(c.Value.Type())+"."+c.Method.Name() != key {
					continue
				}
				f := fn
				name := n
				for !roots[name] && f.Parent() != nil {
					f = f.Parent()
					name = e.shortName(f)
				}
				out[name] = true
			}
		}
	}
	var res []string
	for n := range out {
		res = append(res, n)
	}
	sort.Strings(res)
	return res
}
