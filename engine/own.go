package main

// Ownership / frame discipline at field granularity (DESIGN section 5 item 5).
//
// `thread NAME root...` names the goroutine roles of the package: a role is the set
// of functions reachable over static calls and closure creation from its roots
// (`go` targets and API entry points). `owner T.f ...` declares which roles may
// touch a field after the object has been published. The pseudo unit own:fields
// enumerates every FieldAddr/Field access of the package from SSA and emits one
// obligation per access of a declared field. These obligations are decided by the
// role analysis (they are frame conditions, not SMT goals); `writewhen`/`readwhen`
// guards are ordinary SMT obligations generated inside the units (instr.go).

import (
	"fmt"
	"go/types"
	"sort"
	"strings"

	"golang.org/x/tools/go/ssa"
)

// OwnerDecl is one `owner` line.
type OwnerDecl struct {
	Field     string   // "fsm.conn"
	Immutable bool     // written only while the object is still private to its constructor
	Writers   []string // roles allowed to write
	Readers   []string // roles allowed to read (writers may always read)
	WriteWhen Expr     // guard (over `self`) that must hold at every post-publication write: SMT obligation in the writing unit
	WhenSrc   string
	Within    string // readers of another role live inside activations of this function; no writer is reachable from it
	Sync      string // trusted hand-off argument (listed as an assumption)
	Src       string
}

// ThreadDecl is one `thread` line.
type ThreadDecl struct {
	Name  string
	Roots []string
	Multi bool // several instances of this role may run at once on the same object (API callers)
	Before string // this role's root spawns role Before as its last action: its writes happen-before every action of that role
}

type fieldAccess struct {
	fn    *ssa.Function
	field string // "T.f"
	write bool
	fresh bool // base object allocated in this function (still private)
	pos   string
	via   string // description of the base
}

// roleMap computes, for every function of the package, the set of roles that may
// execute it.
func (e *Engine) roleMap() (map[*ssa.Function]map[string]bool, []string) {
	roles := map[*ssa.Function]map[string]bool{}
	var problems []string
	goTargets := map[*ssa.Function]bool{}
	edges := map[*ssa.Function][]*ssa.Function{}
	for _, fn := range e.funcs {
		for _, b := range fn.Blocks {
			for _, in := range b.Instrs {
				switch x := in.(type) {
				case *ssa.Go:
					if t := staticTarget(x.Call.Value); t != nil {
						goTargets[t] = true
					} else if !x.Call.IsInvoke() {
						problems = append(problems, fmt.Sprintf("go statement with a dynamic target in %s (%s)", e.names[fn], e.pos(x.Pos())))
					}
				case ssa.CallInstruction:
					if t := staticTarget(x.Common().Value); t != nil {
						edges[fn] = append(edges[fn], t)
					}
				}
			}
		}
	}
	// closure creation is an edge unless every use of the closure is a go statement
	for _, fn := range e.funcs {
		for _, b := range fn.Blocks {
			for _, in := range b.Instrs {
				mc, ok := in.(*ssa.MakeClosure)
				if !ok {
					continue
				}
				cf := mc.Fn.(*ssa.Function)
				onlyGo := len(*mc.Referrers()) > 0
				for _, r := range *mc.Referrers() {
					if g, ok := r.(*ssa.Go); !ok || g.Call.Value != mc {
						if _, dbg := r.(*ssa.DebugRef); !dbg {
							onlyGo = false
						}
					}
				}
				if !onlyGo {
					edges[fn] = append(edges[fn], cf)
				}
			}
		}
	}
	declared := map[*ssa.Function]bool{}
	rootOf := map[*ssa.Function]string{}
	for _, td := range e.spec.Threads {
		for _, r := range td.Roots {
			if fn := e.funcs[r]; fn != nil {
				rootOf[fn] = td.Name
			}
		}
	}
	for _, td := range e.spec.Threads {
		for _, r := range td.Roots {
			fn := e.funcs[r]
			if fn == nil {
				problems = append(problems, fmt.Sprintf("thread %s: root %s does not exist", td.Name, r))
				continue
			}
			declared[fn] = true
			var walk func(f *ssa.Function)
			walk = func(f *ssa.Function) {
				if roles[f] == nil {
					roles[f] = map[string]bool{}
				}
				if roles[f][td.Name] {
					return
				}
				if o, isRoot := rootOf[f]; isRoot && o != td.Name {
					return // the root of another declared role is a role boundary
				}
				roles[f][td.Name] = true
				for _, c := range edges[f] {
					if _, ours := e.names[c]; ours {
						walk(c)
					}
				}
			}
			walk(fn)
		}
	}
	for t := range goTargets {
		if _, ours := e.names[t]; ours && !declared[t] {
			problems = append(problems, fmt.Sprintf("go target %s is not the root of a declared thread", e.names[t]))
		}
	}
	sort.Strings(problems)
	return roles, problems
}

func staticTarget(v ssa.Value) *ssa.Function {
	switch x := v.(type) {
	case *ssa.Function:
		return x
	case *ssa.MakeClosure:
		return x.Fn.(*ssa.Function)
	}
	return nil
}

// freshBase reports whether the pointer v is (derived from) an allocation made by
// the same function, i.e. the object has not been published when accessed here.
// An object counts as published once it has been stored anywhere, passed to a
// call or captured; we approximate conservatively: the Alloc must be a heap or
// stack Alloc of this function — constructors in this package fill the object in
// before they return, start a goroutine on it or store it.
func freshBase(v ssa.Value) bool {
	for {
		switch x := v.(type) {
		case *ssa.Alloc:
			return true
		case *ssa.FieldAddr:
			v = x.X
		case *ssa.IndexAddr:
			v = x.X
		default:
			return false
		}
	}
}

func structFieldName(t types.Type, idx int) (string, bool) {
	if p, ok := t.Underlying().(*types.Pointer); ok {
		t = p.Elem()
	}
	n, ok := t.(*types.Named)
	if !ok {
		return "", false
	}
	st, ok := n.Underlying().(*types.Struct)
	if !ok {
		return "", false
	}
	return n.Obj().Name() + "." + st.Field(idx).Name(), true
}

// fieldAccesses enumerates every access to a field of a named struct type of the
// package. A FieldAddr is a write if its address (or an address derived from it by
// IndexAddr/FieldAddr) is the target of a Store, a MapUpdate or is passed to a
// call (escaping address: counted as a write, conservatively); otherwise a read.
func (e *Engine) fieldAccesses() []fieldAccess {
	var out []fieldAccess
	var names []string
	for n := range e.funcs {
		names = append(names, n)
	}
	sort.Strings(names)
	for _, n := range names {
		fn := e.funcs[n]
		for _, b := range fn.Blocks {
			for _, in := range b.Instrs {
				switch x := in.(type) {
				case *ssa.FieldAddr:
					f, ok := structFieldName(x.X.Type(), x.Field)
					if !ok {
						continue
					}
					w, r := addrUses(x)
					if w {
						out = append(out, fieldAccess{fn: fn, field: f, write: true, fresh: freshBase(x.X), pos: e.pos(x.Pos())})
					}
					if r || !w {
						out = append(out, fieldAccess{fn: fn, field: f, write: false, fresh: freshBase(x.X), pos: e.pos(x.Pos())})
					}
				case *ssa.Field:
					f, ok := structFieldName(x.X.Type(), x.Field)
					if !ok {
						continue
					}
					// a Field on a struct value: the read happened when the value was loaded
					_ = f
				}
			}
		}
	}
	return out
}

// addrUses classifies the uses of an address value.
func addrUses(a ssa.Value) (write, read bool) {
	refs := a.Referrers()
	if refs == nil {
		return false, true
	}
	for _, r := range *refs {
		switch u := r.(type) {
		case *ssa.Store:
			if u.Addr == a {
				write = true
			} else {
				write = true // the address itself is stored somewhere: escapes
			}
		case *ssa.UnOp:
			read = true
		case *ssa.FieldAddr:
			w, rd := addrUses(u)
			write, read = write || w, read || rd
		case *ssa.IndexAddr:
			w, rd := addrUses(u)
			write, read = write || w, read || rd
		case *ssa.Slice:
			read = true
		case *ssa.DebugRef:
		case ssa.CallInstruction:
			// address passed to a call (method with pointer receiver on the field,
			// e.g. mu.Lock, once.Do, wg.Add): the callee synchronises internally or is
			// checked on its own; counted as a read of the field's location
			read = true
		default:
			write = true
		}
	}
	return
}

func roleList(m map[string]bool) string {
	var l []string
	for r := range m {
		l = append(l, r)
	}
	sort.Strings(l)
	if len(l) == 0 {
		return "(no role)"
	}
	return strings.Join(l, ",")
}

// dumpOwners prints the access table (exploration aid: `cbv owners`).
func (e *Engine) dumpOwners() {
	roles, problems := e.roleMap()
	for _, p := range problems {
		fmt.Println("PROBLEM:", p)
	}
	acc := e.fieldAccesses()
	by := map[string][]fieldAccess{}
	for _, a := range acc {
		by[a.field] = append(by[a.field], a)
	}
	var fields []string
	for f := range by {
		fields = append(fields, f)
	}
	sort.Strings(fields)
	for _, f := range fields {
		fmt.Println(f)
		seen := map[string]bool{}
		for _, a := range by[f] {
			k := "R"
			if a.write {
				k = "W"
			}
			fr := ""
			if a.fresh {
				fr = " fresh"
			}
			line := fmt.Sprintf("   %s%s  %-40s roles=%s", k, fr, e.names[a.fn], roleList(roles[a.fn]))
			if !seen[line] {
				seen[line] = true
				fmt.Println(line)
			}
		}
	}
}

// ownProof is the pseudo unit own:fields.
func (e *Engine) ownProof() *UnitResult {
	name := "own:fields"
	vc := newVC(e, name)
	res := &UnitResult{Name: name, VC: vc, HasSpec: true}
	vc.coverSt = "sat"
	roles, problems := e.roleMap()
	add := func(label, pos string, ok bool, why string) {
		o := &Oblig{Name: fmt.Sprintf("%s#own[%s]", name, label), Kind: "own", Label: label, Unit: name, Cand: -1, Pos: pos, Solver: "role-analysis(static)"}
		if ok {
			o.Status = "unsat"
		} else {
			o.Status, o.Note = "sat", why
		}
		vc.obligs = append(vc.obligs, o)
	}
	for _, p := range problems {
		add("threads: "+p, "-", false, p)
	}
	multi := map[string]bool{}
	thread := map[string]*ThreadDecl{}
	for _, td := range e.spec.Threads {
		multi[td.Name] = td.Multi
		thread[td.Name] = td
	}
	// happens-before by spawn: the root of A spawns a root of B and does nothing afterwards
	for _, td := range e.spec.Threads {
		if td.Before == "" {
			continue
		}
		tb := thread[td.Before]
		if tb == nil {
			add("thread "+td.Name+" before "+td.Before, "-", false, "unknown thread "+td.Before)
			continue
		}
		for _, r := range td.Roots {
			fn := e.funcs[r]
			if fn == nil {
				continue
			}
			ok, why := spawnsLast(e, fn, tb)
			add(fmt.Sprintf("%s spawns %s as its last action", r, td.Before), e.pos(fn.Pos()), ok, why)
		}
	}
	owned := map[string]bool{}
	allAcc := e.fieldAccesses()
	for _, t := range e.spec.OwnedTypes {
		owned[t] = true
		// every field of an owned type needs a policy (fail closed)
		if T := e.lookupType(t); T != nil {
			if st, ok := T.Underlying().(*types.Struct); ok {
				for i := 0; i < st.NumFields(); i++ {
					f := t + "." + st.Field(i).Name()
					_, g := e.spec.Guarded[f]
					if e.spec.Owners[f] != nil || g {
						add("policy declared for "+f, "-", true, "")
						continue
					}
					// no declared policy (a field added later): confined to one
					// single-instance role after publication is race free by itself
					owner, okInf, why := "", true, ""
					for _, a := range allAcc {
						if a.field != f || a.fresh {
							continue
						}
						rs := roles[a.fn]
						if len(rs) == 0 {
							okInf, why = false, "accessed by "+e.names[a.fn]+", which is reachable from no declared thread root"
							break
						}
						for r := range rs {
							if multi[r] {
								okInf, why = false, "accessed by role "+r+" of which several instances may run at once"
							} else if owner == "" {
								owner = r
							} else if owner != r {
								okInf, why = false, "accessed by roles "+owner+" and "+r
							}
						}
					}
					if okInf {
						add("field "+f+" has no declared policy but is confined to one role ("+owner+")", "-", true, "")
					} else {
						add("policy declared for "+f, "-", false, "field "+f+" of an owned type has neither an owner nor a guardedby declaration and is not confined to one goroutine role: "+why)
					}
				}
			}
		} else {
			add("owned type "+t, "-", false, "type does not exist")
		}
	}
	in := func(l []string, r string) bool {
		for _, x := range l {
			if x == r {
				return true
			}
		}
		return false
	}
	// static reachability for `within`
	reach := func(from *ssa.Function) map[*ssa.Function]bool {
		seen := map[*ssa.Function]bool{}
		var walk func(f *ssa.Function)
		walk = func(f *ssa.Function) {
			if seen[f] {
				return
			}
			seen[f] = true
			for _, b := range f.Blocks {
				for _, in := range b.Instrs {
					switch x := in.(type) {
					case *ssa.MakeClosure:
						walk(x.Fn.(*ssa.Function))
					case ssa.CallInstruction:
						if t := staticTarget(x.Common().Value); t != nil {
							if _, ours := e.names[t]; ours {
								walk(t)
							}
						}
					}
				}
			}
		}
		walk(from)
		return seen
	}
	withinReach := map[string]map[*ssa.Function]bool{}
	for _, od := range e.spec.Owners {
		for _, r := range od.Writers {
			if multi[r] {
				add("policy "+od.Field, "-", false, "role "+r+" may run several instances at once and cannot own writes to "+od.Field+" (use guardedby)")
			}
			if thread[r] == nil {
				add("policy "+od.Field, "-", false, "unknown role "+r)
			}
		}
		for _, r := range od.Readers {
			if thread[r] == nil {
				add("policy "+od.Field, "-", false, "unknown role "+r)
			}
		}
		if len(od.Writers) > 1 {
			// several writer roles must be ordered by spawn
			for i := 0; i < len(od.Writers); i++ {
				for j := 0; j < len(od.Writers); j++ {
					if i < j {
						a, b := thread[od.Writers[i]], thread[od.Writers[j]]
						okk := a != nil && b != nil && (a.Before == b.Name || b.Before == a.Name)
						add(fmt.Sprintf("policy %s: writers %s and %s are ordered", od.Field, od.Writers[i], od.Writers[j]), "-", okk, "two writer roles without a declared spawn order")
					}
				}
			}
		}
		if !od.Immutable {
			// readers of a different role than the writer need a synchronisation argument
			for _, r := range od.Readers {
				if in(od.Writers, r) {
					continue
				}
				ok := od.WriteWhen != nil || od.Within != "" || od.Sync != ""
				if len(od.Writers) == 0 {
					ok = true
				}
				add(fmt.Sprintf("policy %s: reads by %s are synchronised with the writes", od.Field, r), "-", ok, "cross-role reader without writewhen/within/sync")
			}
		}
		if od.Within != "" {
			fn := e.funcs[od.Within]
			if fn == nil {
				add("policy "+od.Field+" within "+od.Within, "-", false, "function does not exist")
			} else {
				withinReach[od.Field] = reach(fn)
			}
		}
	}
	for _, a := range e.fieldAccesses() {
		T := a.field[:strings.Index(a.field, ".")]
		if !owned[T] {
			continue
		}
		if _, g := e.spec.Guarded[a.field]; g {
			continue // lock obligations are generated inside the units
		}
		od := e.spec.Owners[a.field]
		if od == nil {
			continue // reported above
		}
		kind := "read"
		if a.write {
			kind = "write"
		}
		label := fmt.Sprintf("%s of %s in %s", kind, a.field, e.names[a.fn])
		if a.fresh {
			add(label+" (object still private)", a.pos, true, "")
			continue
		}
		rs := roles[a.fn]
		if od.Immutable {
			if a.write {
				add(label, a.pos, false, a.field+" is declared immutable after construction but is written on an object that is not allocated by the writing function")
			} else {
				add(label, a.pos, true, "")
			}
			continue
		}
		if len(rs) == 0 {
			add(label, a.pos, false, "the function is not reachable from any declared thread root, so its goroutine is unknown")
			continue
		}
		ok, why := true, ""
		for r := range rs {
			if a.write && !in(od.Writers, r) {
				ok, why = false, fmt.Sprintf("role %s writes %s; writers allowed: %v", r, a.field, od.Writers)
			}
			if !a.write && !in(od.Writers, r) && !in(od.Readers, r) {
				ok, why = false, fmt.Sprintf("role %s reads %s; allowed: %v %v", r, a.field, od.Writers, od.Readers)
			}
		}
		if ok && a.write && od.Within != "" && withinReach[a.field][a.fn] {
			ok, why = false, fmt.Sprintf("%s is written inside %s, during which another role reads it", a.field, od.Within)
		}
		add(label, a.pos, ok, why)
	}
	// local variables captured by reference by a goroutine and assigned by the
	// spawner in a loop that contains the go statement (the per-loop variable of
	// Go < 1.22, or any variable re-assigned while the goroutine may read it)
	var fnames []string
	for n := range e.funcs {
		fnames = append(fnames, n)
	}
	sort.Strings(fnames)
	for _, n := range fnames {
		fn := e.funcs[n]
		for _, b := range fn.Blocks {
			for _, in := range b.Instrs {
				g, ok := in.(*ssa.Go)
				if !ok {
					continue
				}
				mc, ok := g.Call.Value.(*ssa.MakeClosure)
				if !ok {
					continue
				}
				for bi, bind := range mc.Bindings {
					al, ok := bind.(*ssa.Alloc)
					if !ok {
						continue
					}
					// stores to the variable that can execute after the go statement:
					// a store in a block from which the go block is reachable again
					// (same loop), or in a block reachable from the go block
					raced := ""
					for _, ref := range *al.Referrers() {
						st, ok := ref.(*ssa.Store)
						if !ok || st.Addr != al {
							continue
						}
						if reachable(b, st.Block()) && (st.Block() != b || instrIndex(st) > instrIndex(in) || reachableViaSucc(b, b)) {
							raced = e.pos(st.Pos())
						}
					}
					fvn := "?"
					if cf, ok := mc.Fn.(*ssa.Function); ok && bi < len(cf.FreeVars) {
						fvn = cf.FreeVars[bi].Name()
					}
					add(fmt.Sprintf("variable %s captured by the goroutine started in %s is not assigned while the goroutine may run", fvn, n), e.pos(g.Pos()), raced == "", fmt.Sprintf("variable %s is captured by reference by the goroutine and assigned again at %s (before Go 1.22 a loop variable is one variable for all iterations)", fvn, raced))
				}
			}
		}
	}
	// package-level variables that are assigned after initialisation
	var gnames []string
	for n := range e.spkg.Members {
		gnames = append(gnames, n)
	}
	sort.Strings(gnames)
	for _, n := range gnames {
		g, ok := e.spkg.Members[n].(*ssa.Global)
		if !ok || e.immutableGlobal(g) || strings.HasPrefix(n, "init$") {
			continue
		}
		type gacc struct {
			fn    *ssa.Function
			write bool
		}
		var accs []gacc
		for _, fn := range e.funcs {
			for _, b := range fn.Blocks {
				for _, in := range b.Instrs {
					switch x := in.(type) {
					case *ssa.Store:
						if x.Addr == g {
							accs = append(accs, gacc{fn, true})
						}
					case *ssa.UnOp:
						if x.X == g {
							accs = append(accs, gacc{fn, false})
						}
					}
				}
			}
		}
		owner, okG, why := "", true, ""
		for _, a := range accs {
			rs := roles[a.fn]
			if len(rs) == 0 {
				// exported entry points that are not declared roots (SetLogger ...): any goroutine of the user
				rs = map[string]bool{"api": true}
			}
			for r := range rs {
				switch {
				case multi[r] && a.write:
					okG, why = false, fmt.Sprintf("written by %s, which any number of goroutines may run at once, with no lock or atomic", e.names[a.fn])
				case owner == "":
					owner = r
				case owner != r:
					if why == "" {
						okG, why = false, fmt.Sprintf("accessed by roles %s and %s (e.g. %s) with no lock or atomic", owner, r, e.names[a.fn])
					}
				}
			}
		}
		add("package variable "+n+" is not shared between goroutine roles without synchronisation", e.pos(g.Pos()), okG, "package variable "+n+": "+why)
	}
	for _, od := range e.spec.Owners {
		if od.Sync != "" {
			vc.note("ownership: hand-off of " + od.Field + " is trusted (" + od.Sync + ")")
		}
	}
	vc.note("ownership obligations (kind own) are frame conditions decided by the SSA role analysis; writewhen guards are SMT obligations inside the writing units")
	sort.SliceStable(vc.obligs, func(i, j int) bool { return vc.obligs[i].Name < vc.obligs[j].Name })
	// merge duplicates (several accesses of one kind in one function)
	var uniq []*Oblig
	for _, o := range vc.obligs {
		if n := len(uniq); n > 0 && uniq[n-1].Name == o.Name {
			if o.Status != "unsat" {
				uniq[n-1] = o
			}
			continue
		}
		uniq = append(uniq, o)
	}
	vc.obligs = uniq
	return res
}

// spawnsLast: fn contains a go statement whose target is a root of tb, and no
// instruction other than a return follows it on any path.
func spawnsLast(e *Engine, fn *ssa.Function, tb *ThreadDecl) (bool, string) {
	found := false
	for _, b := range fn.Blocks {
		for i, in := range b.Instrs {
			g, ok := in.(*ssa.Go)
			if !ok {
				continue
			}
			t := staticTarget(g.Call.Value)
			isRoot := false
			for _, r := range tb.Roots {
				if t != nil && e.funcs[r] == t {
					isRoot = true
				}
			}
			if !isRoot {
				continue
			}
			found = true
			for _, rest := range b.Instrs[i+1:] {
				switch rest.(type) {
				case *ssa.Return, *ssa.DebugRef, *ssa.RunDefers:
				default:
					return false, fmt.Sprintf("instruction %s follows the go statement", rest)
				}
			}
		}
	}
	if !found {
		return false, "no go statement starting " + tb.Name
	}
	return true, ""
}

// modelProof is the pseudo unit model:errors: structural facts about /repo that
// the engine's error-tree model relies on. The model treats every error type of
// the package as a leaf of the tree that errors.As / errors.Is walk; wrapping is
// done only by fmt.Errorf(%w) and errors.Join. A package error type that declares
// Unwrap, Is or As changes what errors.As finds without any function body
// changing, so it is an obligation that none does.
func (e *Engine) modelProof() *UnitResult {
	name := "model:errors"
	vc := newVC(e, name)
	res := &UnitResult{Name: name, VC: vc, HasSpec: true}
	vc.coverSt = "sat"
	errI := types.Universe.Lookup("error").Type().Underlying().(*types.Interface)
	seen := map[string]bool{}
	for _, T := range e.implementers(errI) {
		base := T
		if p, ok := T.(*types.Pointer); ok {
			base = p.Elem()
		}
		n, ok := base.(*types.Named)
		if !ok || n.Obj().Pkg() == nil || n.Obj().Pkg().Path() != pkgPath || seen[n.Obj().Name()] {
			continue
		}
		seen[n.Obj().Name()] = true
		bad := ""
		for _, recv := range []types.Type{n, types.NewPointer(n)} {
			ms := types.NewMethodSet(recv)
			for _, mn := range []string{"Unwrap", "Is", "As"} {
				if ms.Lookup(n.Obj().Pkg(), mn) != nil {
					bad = mn
				}
			}
		}
		o := &Oblig{Name: fmt.Sprintf("%s#model[error type %s is a leaf of error trees (declares no Unwrap/Is/As)]", name, n.Obj().Name()), Kind: "model", Unit: name, Cand: -1, Pos: e.pos(n.Obj().Pos()), Solver: "type-analysis(static)"}
		if bad == "" {
			o.Status = "unsat"
		} else {
			o.Status, o.Note = "sat", fmt.Sprintf("%s declares %s: errors.As/errors.Is see through or around it, which the error-tree model of the contracts (hasType, firstOf, errContains) does not describe", n.Obj().Name(), bad)
		}
		vc.obligs = append(vc.obligs, o)
	}
	sort.SliceStable(vc.obligs, func(i, j int) bool { return vc.obligs[i].Name < vc.obligs[j].Name })
	vc.note("error-tree model: package error types are leaves; wrapping only by fmt.Errorf(%w) and errors.Join (obligations of model:errors)")
	return res
}

func instrIndex(in ssa.Instruction) int {
	for i, x := range in.Block().Instrs {
		if x == in {
			return i
		}
	}
	return -1
}

// reachable: is block `to` reachable from block `from` by one or more... zero or more edges.
func reachable(from, to *ssa.BasicBlock) bool {
	if from == to {
		return true
	}
	return reachableViaSucc(from, to)
}

// reachableViaSucc: reachable by at least one edge.
func reachableViaSucc(from, to *ssa.BasicBlock) bool {
	seen := map[*ssa.BasicBlock]bool{}
	var stack []*ssa.BasicBlock
	stack = append(stack, from.Succs...)
	for len(stack) > 0 {
		b := stack[len(stack)-1]
		stack = stack[:len(stack)-1]
		if seen[b] {
			continue
		}
		seen[b] = true
		if b == to {
			return true
		}
		stack = append(stack, b.Succs...)
	}
	return false
}
