package main

// Spec -> Go: compiles a postcondition of a contract into an executable Go
// boolean expression over the real function's arguments and results, so that a
// solver model can be replayed against the real code without a hand-written
// oracle. Supported: the quantifier-free fragment over parameters, results and
// package constants, pure functions (macro-expanded), len/cap/min/max, field
// selection, indexing and slicing, hasType/isType/asType/firstOf on errors and
// interfaces, and bounded quantifiers of the forms
//   forall k :: lo <= k && k < hi ==> body      exists k :: lo <= k && k < hi && body
// Anything else (ghost state, old(), fresh(), uninterpreted functions) makes the
// compilation fail and no replay is attempted for that obligation.

import (
	"fmt"
	"go/types"
	"strings"

	"golang.org/x/tools/go/ssa"
)

type goVal struct {
	code string
	kind string     // "int" (int64), "bool", "val", "nil"
	typ  types.Type // static Go type for kind "val"
}

type goc struct {
	e     *Engine
	lets  map[string]Expr
	vars  map[string]goVal
	bound map[string]bool
	depth int
	err   string
}

func (g *goc) fail(format string, a ...interface{}) goVal {
	if g.err == "" {
		g.err = fmt.Sprintf(format, a...)
	}
	return goVal{code: "false", kind: "bool"}
}

func (g *goc) bare(t types.Type) string {
	return types.TypeString(t, func(p *types.Package) string {
		if p.Path() == pkgPath {
			return ""
		}
		return p.Name()
	})
}

// lift turns a Go expression of static type t into a goVal.
func (g *goc) lift(code string, t types.Type) goVal {
	if b, ok := t.Underlying().(*types.Basic); ok {
		switch {
		case b.Info()&types.IsInteger != 0:
			return goVal{code: "int64(" + code + ")", kind: "int"}
		case b.Info()&types.IsBoolean != 0:
			return goVal{code: "bool(" + code + ")", kind: "bool"}
		}
	}
	return goVal{code: code, kind: "val", typ: t}
}

func (g *goc) int(e Expr) string {
	v := g.val(e)
	if v.kind != "int" {
		g.fail("integer expected in %s", exprString(e))
		return "0"
	}
	return v.code
}

func (g *goc) boolean(e Expr) string {
	v := g.val(e)
	if v.kind != "bool" {
		g.fail("boolean expected in %s", exprString(e))
		return "false"
	}
	return v.code
}

func (g *goc) typeArg(e Expr) (types.Type, string) {
	env := &Env{vc: &VC{e: g.e}}
	t := env.typeArg(e)
	if t == nil {
		return nil, ""
	}
	return t, g.bare(t)
}

func substExpr(e Expr, m map[string]Expr) Expr {
	switch x := e.(type) {
	case *EIdent:
		if r, ok := m[x.Name]; ok {
			return r
		}
		return x
	case *EBin:
		return &EBin{Op: x.Op, L: substExpr(x.L, m), R: substExpr(x.R, m)}
	case *EUn:
		return &EUn{Op: x.Op, X: substExpr(x.X, m)}
	case *ECall:
		c := &ECall{Fn: x.Fn}
		for _, a := range x.Args {
			c.Args = append(c.Args, substExpr(a, m))
		}
		return c
	case *ESel:
		return &ESel{X: substExpr(x.X, m), Name: x.Name}
	case *EIndex:
		return &EIndex{X: substExpr(x.X, m), I: substExpr(x.I, m)}
	case *ESlice:
		return &ESlice{X: substExpr(x.X, m), Lo: substExpr(x.Lo, m), Hi: substExpr(x.Hi, m)}
	case *EQuant:
		m2 := map[string]Expr{}
		for k, v := range m {
			m2[k] = v
		}
		for _, v := range x.Vars {
			delete(m2, v)
		}
		return &EQuant{Forall: x.Forall, Vars: x.Vars, Body: substExpr(x.Body, m2)}
	case *ECond:
		return &ECond{C: substExpr(x.C, m), A: substExpr(x.A, m), B: substExpr(x.B, m)}
	}
	return e
}

func (g *goc) val(e Expr) goVal {
	g.depth++
	defer func() { g.depth-- }()
	if g.depth > 60 {
		return g.fail("expression too deep")
	}
	switch x := e.(type) {
	case *ENum:
		return goVal{code: "int64(" + x.V + ")", kind: "int"}
	case *EBool:
		return goVal{code: fmt.Sprint(x.V), kind: "bool"}
	case *EIdent:
		if g.bound[x.Name] {
			return goVal{code: "q_" + x.Name, kind: "int"}
		}
		if v, ok := g.vars[x.Name]; ok {
			return v
		}
		if l, ok := g.lets[x.Name]; ok {
			return g.val(l)
		}
		if x.Name == "nil" {
			return goVal{code: "nil", kind: "nil"}
		}
		if obj, ok := g.e.pkgConst(x.Name); ok {
			return g.lift(x.Name, obj.Type())
		}
		return g.fail("identifier %q is not a parameter, result or package constant", x.Name)
	case *EUn:
		switch x.Op {
		case "!":
			return goVal{code: "!(" + g.boolean(x.X) + ")", kind: "bool"}
		case "-":
			return goVal{code: "-(" + g.int(x.X) + ")", kind: "int"}
		case "*":
			v := g.val(x.X)
			if v.kind == "val" && v.typ != nil {
				if pt, ok := v.typ.Underlying().(*types.Pointer); ok {
					return g.lift("(*"+v.code+")", pt.Elem())
				}
			}
			return g.fail("dereference of a non-pointer")
		}
		return g.fail("unsupported unary operator %s", x.Op)
	case *EBin:
		switch x.Op {
		case "&&", "||":
			return goVal{code: "(" + g.boolean(x.L) + " " + x.Op + " " + g.boolean(x.R) + ")", kind: "bool"}
		case "==>":
			return goVal{code: "(!(" + g.boolean(x.L) + ") || " + g.boolean(x.R) + ")", kind: "bool"}
		case "<==>":
			return goVal{code: "(" + g.boolean(x.L) + " == " + g.boolean(x.R) + ")", kind: "bool"}
		case "<", "<=", ">", ">=":
			return goVal{code: "(" + g.int(x.L) + " " + x.Op + " " + g.int(x.R) + ")", kind: "bool"}
		case "+", "-", "*":
			return goVal{code: "(" + g.int(x.L) + " " + x.Op + " " + g.int(x.R) + ")", kind: "int"}
		case "/", "%":
			return goVal{code: "cbvDivMod(" + g.int(x.L) + ", " + g.int(x.R) + ", " + fmt.Sprint(x.Op == "/") + ")", kind: "int"}
		case "==", "!=":
			l, r := g.val(x.L), g.val(x.R)
			neg := ""
			if x.Op == "!=" {
				neg = "!"
			}
			switch {
			case l.kind == "nil" && r.kind == "nil":
				return goVal{code: fmt.Sprint(x.Op == "=="), kind: "bool"}
			case l.kind == "nil":
				return goVal{code: neg + "cbvIsNil(" + r.code + ")", kind: "bool"}
			case r.kind == "nil":
				return goVal{code: neg + "cbvIsNil(" + l.code + ")", kind: "bool"}
			case l.kind == "int" && r.kind == "int", l.kind == "bool" && r.kind == "bool":
				return goVal{code: "(" + l.code + " " + x.Op + " " + r.code + ")", kind: "bool"}
			case l.kind == "val" && r.kind == "val" && l.typ != nil && r.typ != nil && types.Comparable(l.typ) && (types.Identical(l.typ, r.typ) || types.AssignableTo(l.typ, r.typ) || types.AssignableTo(r.typ, l.typ)):
				return goVal{code: "(" + l.code + " " + x.Op + " " + r.code + ")", kind: "bool"}
			case l.kind == "val" && r.kind == "val" && l.typ != nil && r.typ != nil && isByteSlice(l.typ) && isByteSlice(r.typ):
				// slices compared as values of the specification: same contents
				return goVal{code: neg + "(string(" + l.code + ") == string(" + r.code + "))", kind: "bool"}
			}
			return g.fail("cannot compare %s and %s in Go", exprString(x.L), exprString(x.R))
		}
		return g.fail("unsupported operator %s", x.Op)
	case *ECond:
		a, b := g.val(x.A), g.val(x.B)
		if a.kind != b.kind || (a.kind != "int" && a.kind != "bool") {
			return g.fail("conditional with non-scalar branches")
		}
		T := map[string]string{"int": "int64", "bool": "bool"}[a.kind]
		return goVal{code: fmt.Sprintf("func() %s { if %s { return %s }; return %s }()", T, g.boolean(x.C), a.code, b.code), kind: a.kind}
	case *ESel:
		b := g.val(x.X)
		if b.kind != "val" || b.typ == nil {
			return g.fail("field %s of a non-struct value", x.Name)
		}
		t := b.typ
		if p, ok := t.Underlying().(*types.Pointer); ok {
			t = p.Elem()
		}
		st, ok := t.Underlying().(*types.Struct)
		if !ok {
			return g.fail("field %s of %s", x.Name, g.bare(b.typ))
		}
		for i := 0; i < st.NumFields(); i++ {
			if st.Field(i).Name() == x.Name {
				return g.lift(b.code+"."+x.Name, st.Field(i).Type())
			}
		}
		return g.fail("no field %s in %s", x.Name, g.bare(t))
	case *EIndex:
		b := g.val(x.X)
		if b.kind != "val" || b.typ == nil {
			return g.fail("index into %s", exprString(x.X))
		}
		var elem types.Type
		switch u := b.typ.Underlying().(type) {
		case *types.Slice:
			elem = u.Elem()
		case *types.Array:
			elem = u.Elem()
		default:
			return g.fail("index into %s", g.bare(b.typ))
		}
		return g.lift(b.code+"[int("+g.int(x.I)+")]", elem)
	case *ESlice:
		b := g.val(x.X)
		if b.kind != "val" || b.typ == nil {
			return g.fail("slice of %s", exprString(x.X))
		}
		if _, ok := b.typ.Underlying().(*types.Slice); !ok {
			return g.fail("slice of %s", g.bare(b.typ))
		}
		lo, hi := "", ""
		if x.Lo != nil {
			lo = "int(" + g.int(x.Lo) + ")"
		}
		if x.Hi != nil {
			hi = "int(" + g.int(x.Hi) + ")"
		}
		return goVal{code: b.code + "[" + lo + ":" + hi + "]", kind: "val", typ: b.typ}
	case *EQuant:
		if len(x.Vars) != 1 {
			return g.fail("quantifier over several variables")
		}
		k := x.Vars[0]
		var rng, body Expr
		if x.Forall {
			imp, ok := x.Body.(*EBin)
			if !ok || imp.Op != "==>" {
				return g.fail("forall without a range implication")
			}
			rng, body = imp.L, imp.R
		} else {
			// exists k :: lo <= k && k < hi && body  (left-nested &&)
			var parts []Expr
			var flat func(e Expr)
			flat = func(e Expr) {
				if b, ok := e.(*EBin); ok && b.Op == "&&" {
					flat(b.L)
					flat(b.R)
					return
				}
				parts = append(parts, e)
			}
			flat(x.Body)
			if len(parts) < 3 {
				return g.fail("exists without a range")
			}
			rng = &EBin{Op: "&&", L: parts[0], R: parts[1]}
			body = parts[2]
			for _, p := range parts[3:] {
				body = &EBin{Op: "&&", L: body, R: p}
			}
		}
		lo, hi, extra, ok := quantRange(rng, k)
		if !ok {
			return g.fail("quantifier range of %s not of the form lo <= k && k < hi", k)
		}
		loC, hiC := g.int(lo), g.int(hi)
		old := g.bound[k]
		g.bound[k] = true
		bodyC := g.boolean(body)
		extraC := "true"
		if extra != nil {
			extraC = g.boolean(extra)
		}
		g.bound[k] = old
		if x.Forall {
			return goVal{code: fmt.Sprintf("func() bool { for q_%s := %s; q_%s < %s; q_%s++ { if %s && !(%s) { return false } }; return true }()", k, loC, k, hiC, k, extraC, bodyC), kind: "bool"}
		}
		return goVal{code: fmt.Sprintf("func() bool { for q_%s := %s; q_%s < %s; q_%s++ { if %s && (%s) { return true } }; return false }()", k, loC, k, hiC, k, extraC, bodyC), kind: "bool"}
	case *ECall:
		return g.call(x)
	}
	return g.fail("unsupported expression %s", exprString(e))
}

func isByteSlice(t types.Type) bool {
	s, ok := t.Underlying().(*types.Slice)
	if !ok {
		return false
	}
	b, ok := s.Elem().Underlying().(*types.Basic)
	return ok && b.Kind() == types.Uint8
}

// quantRange recognises lo <= k && k < hi [&& extra...] (also k <= hi-1 as k < hi+... is not needed).
func quantRange(e Expr, k string) (lo, hi, extra Expr, ok bool) {
	var parts []Expr
	var flat func(e Expr)
	flat = func(e Expr) {
		if b, ok := e.(*EBin); ok && b.Op == "&&" {
			flat(b.L)
			flat(b.R)
			return
		}
		parts = append(parts, e)
	}
	flat(e)
	isK := func(e Expr) bool { id, ok := e.(*EIdent); return ok && id.Name == k }
	for _, p := range parts {
		b, isBin := p.(*EBin)
		switch {
		case isBin && b.Op == "<=" && isK(b.R) && lo == nil:
			lo = b.L
		case isBin && b.Op == "<" && isK(b.R) && lo == nil:
			lo = &EBin{Op: "+", L: b.L, R: &ENum{V: "1"}}
		case isBin && b.Op == "<" && isK(b.L) && hi == nil:
			hi = b.R
		case isBin && b.Op == "<=" && isK(b.L) && hi == nil:
			hi = &EBin{Op: "+", L: b.R, R: &ENum{V: "1"}}
		default:
			if extra == nil {
				extra = p
			} else {
				extra = &EBin{Op: "&&", L: extra, R: p}
			}
		}
	}
	return lo, hi, extra, lo != nil && hi != nil
}

func (g *goc) call(x *ECall) goVal {
	if p := g.e.spec.Pures[x.Fn]; p != nil {
		if len(p.Params) != len(x.Args) {
			return g.fail("%s: wrong number of arguments", x.Fn)
		}
		m := map[string]Expr{}
		for i, pn := range p.Params {
			m[pn] = x.Args[i]
		}
		return g.val(substExpr(p.Body, m))
	}
	switch x.Fn {
	case "len", "cap":
		if len(x.Args) != 1 {
			return g.fail("len/cap arity")
		}
		v := g.val(x.Args[0])
		if v.kind != "val" {
			return g.fail("len of %s", exprString(x.Args[0]))
		}
		return goVal{code: "int64(" + x.Fn + "(" + v.code + "))", kind: "int"}
	case "min", "max":
		if len(x.Args) != 2 {
			return g.fail("min/max arity")
		}
		return goVal{code: x.Fn + "(" + g.int(x.Args[0]) + ", " + g.int(x.Args[1]) + ")", kind: "int"}
	case "hasType", "isType", "asType", "firstOf":
		if len(x.Args) != 2 {
			return g.fail("%s arity", x.Fn)
		}
		v := g.val(x.Args[0])
		T, ts := g.typeArg(x.Args[1])
		if T == nil || v.kind != "val" {
			return g.fail("%s: unsupported arguments", x.Fn)
		}
		switch x.Fn {
		case "hasType":
			return goVal{code: "cbvHasType[" + ts + "](" + v.code + ")", kind: "bool"}
		case "firstOf":
			return goVal{code: "cbvFirstOf[" + ts + "](" + v.code + ")", kind: "val", typ: T}
		case "isType":
			return goVal{code: "cbvIsType[" + ts + "](" + v.code + ")", kind: "bool"}
		default:
			return g.lift("cbvAsType["+ts+"]("+v.code+")", T)
		}
	case "int", "uint8", "uint16", "uint32", "uint64", "int64":
		if len(x.Args) == 1 {
			return goVal{code: g.int(x.Args[0]), kind: "int"}
		}
	}
	return g.fail("%s(...) has no executable meaning (ghost state, uninterpreted or heap predicate)", x.Fn)
}

const oracleHelpers = `
func cbvIsNil(v interface{}) bool {
	if v == nil {
		return true
	}
	rv := reflect.ValueOf(v)
	switch rv.Kind() {
	case reflect.Ptr, reflect.Slice, reflect.Map, reflect.Chan, reflect.Func, reflect.Interface:
		return rv.IsNil()
	}
	return false
}
func cbvDivMod(a, b int64, div bool) int64 {
	if b == 0 {
		return 0
	}
	q, r := a/b, a%b
	if r < 0 { // SMT-LIB div/mod: remainder is never negative
		if b > 0 {
			q, r = q-1, r+b
		} else {
			q, r = q+1, r-b
		}
	}
	if div {
		return q
	}
	return r
}
func cbvHasType[T error](e error) bool { var t T; return e != nil && errors.As(e, &t) }
func cbvFirstOf[T error](e error) T   { var t T; if e != nil { errors.As(e, &t) }; return t }
func cbvIsType[T any](v interface{}) bool { _, ok := v.(T); return ok }
func cbvAsType[T any](v interface{}) T    { t, _ := v.(T); return t }
`

// compileOracle builds the Go call statement and oracle for obligation label of unit.
// vars: how the generated test names receiver, parameters and results.
func (e *Engine) compileOracle(fn *ssa.Function, c *Contract, label string, lits map[string]string) (setup, call, oracle, why string) {
	if fn.Parent() != nil || fn.TypeParams().Len() > 0 {
		return "", "", "", "closures and generic functions are replayed through templates only"
	}
	var clause *Clause
	for i := range c.Ensures {
		if c.Ensures[i].Label == label {
			clause = &c.Ensures[i]
		}
	}
	if clause == nil {
		return "", "", "", "no postcondition labelled " + label
	}
	g := &goc{e: e, vars: map[string]goVal{}, bound: map[string]bool{}, lets: map[string]Expr{}}
	for _, l := range c.Lets {
		g.lets[l.Name] = l.E
	}
	var sb strings.Builder
	var args []string
	specName := func(i int, actual string) string {
		if len(c.Params) == len(fn.Params) && !c.Extern && !c.Callback {
			return c.Params[i]
		}
		return actual
	}
	for i, p := range fn.Params {
		lit, ok := lits[p.Name()]
		gv := "in_" + sanitize(p.Name())
		if i == 0 && fn.Signature.Recv() != nil {
			if !ok {
				// a receiver the model does not describe: the zero value
				if pt, isPtr := p.Type().Underlying().(*types.Pointer); isPtr {
					lit = "new(" + g.bare(pt.Elem()) + ")"
				} else {
					return "", "", "", "receiver not determined by the model"
				}
			}
			fmt.Fprintf(&sb, "%s := %s\n\t", gv, lit)
			g.vars[specName(i, p.Name())] = g.lift(gv, p.Type())
			continue
		}
		if !ok {
			return "", "", "", "parameter " + p.Name() + " not determined by the model"
		}
		fmt.Fprintf(&sb, "%s := %s\n\t", gv, lit)
		g.vars[specName(i, p.Name())] = g.lift(gv, p.Type())
		args = append(args, gv)
	}
	res := fn.Signature.Results()
	var rnames []string
	for i := 0; i < res.Len(); i++ {
		rn := fmt.Sprintf("res%d", i)
		rnames = append(rnames, rn)
		if i < len(c.Results) {
			g.vars[c.Results[i]] = g.lift(rn, res.At(i).Type())
		}
	}
	callee := fn.Name()
	if fn.Signature.Recv() != nil {
		callee = "in_" + sanitize(fn.Params[0].Name()) + "." + fn.Name()
	}
	call = callee + "(" + strings.Join(args, ", ") + ")"
	if len(rnames) > 0 {
		call = strings.Join(rnames, ", ") + " := " + call + "; _ = []interface{}{" + strings.Join(rnames, ", ") + "}"
	}
	oracle = g.boolean(clause.E)
	if g.err != "" {
		return "", "", "", g.err
	}
	return sb.String(), call, oracle, ""
}
