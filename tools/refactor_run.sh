#!/bin/bash
# usage: refactor_run.sh <patch> [prop...] : apply a behaviour-preserving refactoring to a scratch copy and run the quick
# checks (default: all 20, four at a time); prints the checks that raise an alarm (there should be none)
P=$(readlink -f $1); shift
props="$@"; [ -z "$props" ] && props=$(python3 -c "import json;print(' '.join(sorted(json.load(open('/verif/spec/properties.map.json')).keys())))")
R=$(mktemp -d /tmp/refrun.XXXX)
mkdir -p $R/repo; (cd /repo && git ls-files -z | xargs -0 cp --parents -t $R/repo)
(cd $R/repo && patch -p1 -s < $P) || { echo "$(basename $P): patch failed"; rm -rf $R; exit 2; }
t=$(cd $R/repo && GOFLAGS=-mod=mod GOPROXY=off GOSUMDB=off GOTOOLCHAIN=local go test -vet=off -count=1 ./... 2>&1 | tail -1)
case "$t" in ok*) ;; *) echo "$(basename $P): baseline tests fail with the patch: $t";; esac
run_one() { p=$1; V=$R/v_$p; mkdir -p $V/evidence; ln -s /verif/spec $V/spec; cp /verif/KNOWN_FINDINGS.txt $V/
  out=$(cd /verif && ./bin/cbv check -repo $R/repo -verif $V -prop $p -tier quick 2>&1); rc=$?
  n=$(echo "$out" | grep -c '^VIOLATION')
  if [ $rc -ne 0 ]; then echo "ALARM $(basename $P) $p rc=$rc violations=$n"; echo "$out" | grep '^VIOLATION' | sed 's/.*obligation=/    /' | cut -c1-200 | head -4; [ $rc -ge 2 ] && echo "$out" | tail -2; fi
}
export -f run_one; export R P
echo $props | tr ' ' '\n' | xargs -P 4 -I{} bash -c 'run_one {}'
echo "done $(basename $P)"
rm -rf $R
