#!/bin/bash
# usage: seed_confirm.sh <prop> <k> : confirm a seeded change in its scratch worktree and file it under /verif/seeded
export GOFLAGS=-mod=mod GOPROXY=off GOSUMDB=off GOTOOLCHAIN=local
# optional 3rd argument: round (2 -> outputs under /tmp/seed/out2, ids <P>_r2s<k>)
P=$1; K=$2; RND=${3:-1}; W=/tmp/seed/$P
if [ "$RND" = "1" ]; then O=/tmp/seed/out/$P; ID=${P}_s$K; else O=/tmp/seed/out$RND/$P; ID=${P}_r${RND}s$K; fi
D=/verif/seeded/$ID
cd $W || exit 1
git checkout -q -- "*.go" ":!*_verif.go" 2>/dev/null; rm -f zz_demo_test.go
cp $O/demo${K}_test.go zz_demo_test.go
clean=$(go test -vet=off -count=1 -run "TestSeedDemo$K\$" . 2>&1 | tail -1)
git apply $O/change$K.diff || { echo "$ID: patch does not apply"; exit 1; }
build=$(go build ./... 2>&1 | tail -1)
withchg=$(go test -vet=off -count=1 -run "TestSeedDemo$K\$" . 2>&1 | tail -1)
rm -f zz_demo_test.go
suite=$(go test -vet=off -count=1 ./... 2>&1 | grep -v "no test files" | tail -1)
git checkout -q -- "*.go" ":!*_verif.go"
echo "$ID clean=[$clean] with=[$withchg] suite=[$suite] build=[$build]"
case "$clean" in ok*) ;; *) echo "  REJECT: demo fails on clean tree"; exit 1;; esac
case "$withchg" in FAIL*|*FAIL*) ;; *) echo "  REJECT: demo passes with change"; exit 1;; esac
case "$suite" in ok*) ;; *) echo "  REJECT: suite fails with change"; exit 1;; esac
mkdir -p $D && cp $O/change$K.diff $D/patch.diff && cp $O/demo${K}_test.go $D/demo_test.go && cp $O/meta$K.txt $D/meta.txt
python3 - "$ID" "$P" "$clean" "$withchg" "$suite" <<'PY'
import json,sys
i,p,clean,withc,suite=sys.argv[1:6]
meta=open('/verif/seeded/%s/meta.txt'%i).read()
json.dump({"id":i,"breaks_property":p,"needs_to_manifest":meta.strip().split("\n")[0][:600],
 "confirmed":{"demo_on_clean_tree":clean,"demo_with_change":withc,"existing_suite_with_change":suite,
 "commands":["git apply patch.diff (scratch worktree /tmp/seed/%s)"%p,"go build ./...","go test -vet=off -count=1 -run TestSeedDemo . (demo as zz_demo_test.go)","go test -vet=off -count=1 ./..."]},
 "detected_by":None},open('/verif/seeded/%s/meta.json'%i,'w'),indent=1)
PY
