#!/bin/bash
# usage: mustpass.sh <patch> <prop>... : apply a behaviour-preserving refactoring to a scratch copy of /repo
# and run the quick checks; every check must still pass (no false alarm).
P=$1; shift
R=$(mktemp -d /tmp/mustpass.XXXX); V=$(mktemp -d /tmp/mustpassv.XXXX)
(cd /repo && git ls-files -z | xargs -0 cp --parents -t $R); ln -s /verif/spec $V/spec; cp /verif/KNOWN_FINDINGS.txt $V/
(cd $R && patch -p1 -s < $P) || { echo "patch failed"; exit 2; }
(cd $R && GOFLAGS=-mod=mod GOPROXY=off GOSUMDB=off GOTOOLCHAIN=local go build ./... && GOFLAGS=-mod=mod GOPROXY=off GOSUMDB=off GOTOOLCHAIN=local go test -vet=off -count=1 ./... 2>&1 | tail -1)
for p in "$@"; do
  out=$(cd /verif && ${CBV:-./bin/cbv} check -repo $R -verif $V -prop $p -tier quick 2>&1); rc=$?
  echo "$(basename $P) $p rc=$rc violations=$(echo "$out" | grep -c '^VIOLATION')"
  echo "$out" | grep '^VIOLATION' | sed 's/.*obligation=/    /' | cut -c1-220 | head -5
  [ $rc -ge 2 ] && echo "$out" | tail -2
done
rm -rf $R $V
