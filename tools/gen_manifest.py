#!/usr/bin/env python3
# Regenerates /verif/MANIFEST.json from spec/properties.map.json (claimed checks) and the
# list of properties; every property that is not mapped is listed under not_applicable.
import json, subprocess
props=[json.loads(l) for l in open('/verif/properties.jsonl')]
pm=json.load(open('/verif/spec/properties.map.json'))
hooks=subprocess.run("git -C /repo log --format=%h --grep='^verif hooks' --reverse",shell=True,capture_output=True,text=True).stdout.split()
na_reason={}
try:
    na_reason=json.load(open('/verif/spec/not_applicable.json'))
except Exception: pass
checks=[]
for p in props:
    pid=p['id']
    if pid not in pm: continue
    m=pm[pid]
    text=m.get('claim','')
    nd=m.get('not_decided',[])
    note="Assumed: Go semantics as translated from go/ssa by cbv; SMT solvers; extern contracts in spec/externs.spec; " + "; ".join(m.get('trusted',[]))
    if nd: note += ". NOT decided by this check: " + "; ".join(nd)
    if m.get('bounded'): note += ". Bounded stand-ins (not counted as proved): " + "; ".join(m['bounded'])
    checks.append({
        "property_id":pid,
        "quick_cmd":"./check %s quick"%pid,
        "thorough_cmd":"./check %s thorough"%pid,
        "evidence_file":"/verif/evidence/%s.json"%pid,
        "replay_cmd_template":"cat {path}",
        "engine":"cbv",
        "level_claimed":{"category":"proof","text":"Contracts (//@ requires/ensures/invariant/modifies in /repo/contracts_*_verif.go) on the real functions, verification conditions generated from go/ssa of the current working tree, every obligation discharged by z3/cvc5 for all inputs and all loop iterations. "+text,"design_ref":"DESIGN.md section 9/"+pid},
        "level_note":note,
        "technique":"contract-based deductive verification: weakest-precondition VCs over go/ssa, SMT (z3 5.1/4.8, cvc5)"+(("; "+m["technique_extra"]) if m.get("technique_extra") else "")
    })
manifest={
 "version":1,
 "setup_cmd":"cd /verif/engine && GOFLAGS=-mod=vendor GOPROXY=off GOSUMDB=off GOTOOLCHAIN=local go build -o /verif/bin/cbv .",
 "hooks":{"guard":"verif","enable":"go build tag: -tags=verif (contract files /repo/contracts_*_verif.go and lemmas_verif.go start with //go:build verif)","baseline_off_cmd":"cd /repo && GOFLAGS=-mod=mod GOPROXY=off GOSUMDB=off go test -vet=off -count=1 ./...","source_commits":hooks,"add_only":True},
 "engines":[{"name":"cbv","path":"/verif/engine","serves_properties":[c["property_id"] for c in checks],"kind_free_text":"contract-based deductive verifier for Go built for this task: VC generation over go/ssa (x/tools v0.29.0, vendored) of /repo's working tree, contracts as //@ comments in build-tag-guarded files, obligations discharged by z3-new/z3/cvc5 with Houdini-inferred loop candidates, hypothesis slicing, counterexample replay via go test -overlay"}],
 "checks":checks,
 "notes":"Known findings: /verif/KNOWN_FINDINGS.txt. Design: /verif/DESIGN.md. Seeded property-breaking changes and which obligation reports each: /verif/seeded, DESIGN.md 13.7; the thorough tier re-runs them and the reverts of the fix: commits on scratch copies (evidence key mutants).",
 "not_applicable":[{"property_id":p['id'],"reason":na_reason.get(p['id'],"not yet reached by the engine (DESIGN.md section 11 staging); no check claimed")} for p in props if p['id'] not in pm]
}
json.dump(manifest,open('/verif/MANIFEST.json','w'),indent=1)
print("checks:",[c["property_id"] for c in checks])
