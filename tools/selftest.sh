#!/bin/bash
# Must-fail self-test: (1) the revert of every "fix:" commit must be reported by the
# named property check, (2) every seeded change under /verif/seeded must be reported
# by the check of the property it breaks. /repo is restored after each run.
cd /repo && git diff --quiet || { echo "/repo has uncommitted changes"; exit 2; }
pass=0; fail=0
canary() { # <grep in subject> <property>
  c=$(git -C /repo log --format=%h --grep="$1" | head -1)
  [ -z "$c" ] && { echo "canary $1: commit not found"; fail=$((fail+1)); return; }
  git -C /repo diff $c^ $c -- '*.go' ':!*_verif.go' > /tmp/canary.patch
  git -C /repo apply -R /tmp/canary.patch || { echo "canary $c: revert does not apply"; fail=$((fail+1)); return; }
  out=$(cd /verif && ./check $2 quick 2>&1); rc=$?; n=$(echo "$out" | grep -c '^VIOLATION')
  git -C /repo apply /tmp/canary.patch
  if [ "$rc" -ge 2 ]; then echo "ERROR   check $2 exit $rc on revert of $c: $(echo "$out" | tail -1)"; fail=$((fail+1)); return; fi
  if [ "$n" -gt 0 ]; then echo "KILLED  revert of $c ($1) by $2 ($n violations)"; pass=$((pass+1)); else echo "MISSED  revert of $c ($1) by $2"; fail=$((fail+1)); fi
}
if [ "$1" != "seeds-only" ]; then
canary "encode NOTIFICATION data of length one" C15
canary "uint16 wrap of withdrawn routes length" C16
canary "mandatory attributes when the attribute block is empty" C17
canary "uint8 wrap of MP_REACH_NLRI next hop length" C19
canary "keep the AS numbers of every AS_PATH segment" C18
canary "reject AS 0 when no local address" C20
canary "dominant speaker's connection" C07
canary "OPEN lengths that do not fit one octet" C14
canary "dial completed during cancellation" C10
canary "negotiated hold time of zero" C06
canary "wait for the keepalive manager goroutine" C10
canary "do not read peer.fsms from FSM goroutines" C10
canary "refuse a second Serve while the server is already serving" C20
canary "make SetLogger safe for use while a server is running" C10
fi
for d in /verif/seeded/*/; do
  id=$(basename $d); p=$(python3 -c "import json;print(json.load(open('$d/meta.json'))['breaks_property'])")
  git -C /repo apply $d/patch.diff 2>/dev/null || { echo "seed $id: patch does not apply"; fail=$((fail+1)); continue; }
  out=$(cd /verif && ./check $p quick 2>&1); rc=$?; n=$(echo "$out" | grep -c '^VIOLATION')
  git -C /repo apply -R $d/patch.diff
  if [ "$rc" -ge 2 ]; then echo "ERROR   check $p exit $rc on seed $id: $(echo "$out" | tail -1)"; fail=$((fail+1)); continue; fi
  obs=$(echo "$out" | grep '^VIOLATION' | sed 's/.*obligation="\([^"]*\)".*/\1/' | head -4 | tr '\n' ';')
  python3 - "$d" "$n" "$obs" <<'PY'
import json,sys
d,n,obs=sys.argv[1],int(sys.argv[2]),sys.argv[3]
m=json.load(open(d+'/meta.json')); m['detected_by']={"check":m['breaks_property'],"violations":n,"obligations":[o for o in obs.split(';') if o]} if n>0 else None
json.dump(m,open(d+'/meta.json','w'),indent=1)
PY
  if [ "$n" -gt 0 ]; then echo "KILLED  seed $id by $p: $obs" | cut -c1-200; pass=$((pass+1)); else echo "MISSED  seed $id by $p"; fail=$((fail+1)); fi
done
git -C /repo diff --quiet || echo "WARNING: /repo not clean"
echo "selftest: killed=$pass missed=$fail"
