#!/usr/bin/env python3
# regenerates DESIGN.md section 13.8 (per-property summary as built) from spec/properties.map.json and evidence/
import json,re,os
m=json.load(open('/verif/spec/properties.map.json'))
rows=[]
for pid in sorted(m):
    v=m[pid]
    ev={}
    try: ev=json.load(open('/verif/evidence/%s.json'%pid))
    except Exception: pass
    c=ev.get('coverage',{})
    units='sweep of every function' if v.get('sweep') else '%d units%s'%(len(v.get('units',[])),(' (groups '+'+'.join(v['groups'])+')') if v.get('groups') else '')
    nd='; '.join(x.split(':')[0][:110] for x in v.get('not_decided',[])) or '—'
    rows.append('| %s | %s | %s / %s | %.0f s | %s |'%(pid,units,c.get('discharged','?'),c.get('obligations','?'),ev.get('wall_s',0),nd.replace('|','/')))
t='<!-- prop-table-begin -->\n| property | covers | discharged / obligations (last quick run) | wall | not decided by the check |\n|---|---|---|---|---|\n'+'\n'.join(rows)+'\n<!-- prop-table-end -->'
p='/verif/DESIGN.md'; s=open(p).read()
if '<!-- prop-table-begin -->' in s:
    s=re.sub(r'<!-- prop-table-begin -->.*<!-- prop-table-end -->',lambda _:t,s,flags=re.S)
else:
    s=s.replace('### 13.7 Seeded changes','### 13.8 Per-property summary (generated)\n\nThe claim text, the trusted assumptions and the clauses not decided are in MANIFEST.json (`level_claimed.text`, `level_note`) and in every evidence file; the plan of section 9 describes the intended contracts, `spec/properties.map.json` the units actually checked.\n\n'+t+'\n\n### 13.7 Seeded changes')
open(p,'w').write(s)
print(len(rows))
