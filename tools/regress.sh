#!/bin/bash
# runs every registered quick check on the current tree and prints one summary line each
cd /verif
for p in $(python3 -c "import json;print(' '.join(c['property_id'] for c in json.load(open('MANIFEST.json'))['checks']))"); do
  out=$(./check $p quick 2>&1); rc=$?
  echo "$p rc=$rc $(echo "$out" | tail -1)"
  echo "$out" | grep '^VIOLATION' | sed 's/.*obligation=/    /' | cut -c1-150 | head -8
done
