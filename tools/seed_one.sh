#!/bin/bash
# usage: seed_one.sh <seed-id> [prop] [binary] : run one seeded change on a scratch copy, print VIOLATION lines, keep replay dir in /tmp/seedone/<id>
id=$1; d=/verif/seeded/$id; p=${2:-$(python3 -c "import json;print(json.load(open('$d/meta.json'))['breaks_property'])")}; B=${3:-/verif/bin/cbv}
R=/tmp/seedone/$id/repo; V=/tmp/seedone/$id/v; rm -rf /tmp/seedone/$id; mkdir -p $R $V
(cd /repo && git ls-files -z | xargs -0 cp --parents -t $R); ln -s /verif/spec $V/spec; cp /verif/KNOWN_FINDINGS.txt $V/
(cd $R && patch -p1 -s < $d/patch.diff) || exit 2
$B check -repo $R -verif $V -prop $p -tier quick 2>&1 | grep -v '^KNOWN' | cut -c1-300
