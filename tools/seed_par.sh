#!/bin/bash
# usage: seed_par.sh [-j N] [seed-id...] : run every seeded change against the check of the
# property it breaks, each on its own scratch copy of /repo's working tree (so /repo itself is
# never touched and several can run at once); updates seeded/<id>/meta.json detected_by.
J=3; [ "$1" = "-j" ] && { J=$2; shift 2; }
ids="$@"; [ -z "$ids" ] && ids=$(ls /verif/seeded)
export GOFLAGS=-mod=mod GOPROXY=off GOSUMDB=off GOTOOLCHAIN=local
run_one() {
  id=$1; d=/verif/seeded/$id; R=/tmp/sr/$id; V=/tmp/sv/$id
  p=$(python3 -c "import json;print(json.load(open('$d/meta.json'))['breaks_property'])")
  rm -rf $R $V; mkdir -p $R $V/evidence
  cp -r /tmp/sr/.base/. $R/ || return
  ln -s /tmp/sr/.spec $V/spec; cp /verif/KNOWN_FINDINGS.txt $V/
  (cd $R && git init -q . 2>/dev/null; patch -p1 -s < $d/patch.diff) || { echo "ERROR   seed $id: patch does not apply"; rm -rf $R $V; return; }
  out=$(cd /verif && /tmp/sr/.cbv check -repo $R -verif $V -prop $p -tier quick 2>&1); rc=$?
  n=$(echo "$out" | grep -c '^VIOLATION')
  obs=$(echo "$out" | grep '^VIOLATION' | sed 's/.*obligation="\([^"]*\)".*/\1/' | head -6 | tr '\n' ';')
  rm -rf $R $V
  if [ "$rc" -ge 2 ]; then echo "ERROR   check $p exit $rc on seed $id: $(echo "$out" | tail -1)"; return; fi
  python3 - "$d" "$n" "$obs" <<'PY'
import json,sys
d,n,obs=sys.argv[1],int(sys.argv[2]),sys.argv[3]
m=json.load(open(d+'/meta.json')); m['detected_by']={"check":m['breaks_property'],"violations":n,"obligations":[o for o in obs.split(';') if o]} if n>0 else None
json.dump(m,open(d+'/meta.json','w'),indent=1)
PY
  if [ "$n" -gt 0 ]; then echo "KILLED  seed $id by $p ($n): $obs" | cut -c1-260; else echo "MISSED  seed $id by $p"; fi
}
export -f run_one
# one snapshot of /repo's working tree, taken now: later edits of /repo do not leak into the run
rm -rf /tmp/sr/.base /tmp/sr/.spec /tmp/sr/.cbv; mkdir -p /tmp/sr/.base; (cd /repo && git ls-files -z | xargs -0 cp --parents -t /tmp/sr/.base)
# ... and of the specs and the engine binary, so that development can go on while the seeds run
cp -r /verif/spec /tmp/sr/.spec; cp /verif/bin/cbv /tmp/sr/.cbv
echo $ids | tr ' ' '\n' | xargs -P $J -I{} bash -c 'run_one {}'
rm -rf /tmp/sr/.base /tmp/sr/.spec /tmp/sr/.cbv
