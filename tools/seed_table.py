#!/usr/bin/env python3
# regenerates the seeded-change table of DESIGN.md section 13.7 from seeded/*/meta.json
import json,glob,os,re
rows=[]
for d in sorted(glob.glob('/verif/seeded/*/')):
    m=json.load(open(d+'meta.json'))
    what=m.get('summary')
    if not what:
        try:
            lines=[l for l in open(d+'meta.txt').read().split('\n') if l.strip()]
            what=lines[1] if len(lines)>1 else lines[0]
        except Exception:
            what=m['needs_to_manifest']
    what=re.sub(r'\s+',' ',what)
    what=re.sub(r'^(The change|This change|Change \d+)\s+','',what)
    if len(what)>230: what=what[:227]+'...' 
    det=m.get('detected_by')
    if det:
        by=det['check']+': '+', '.join('`%s`'%o for o in det['obligations'][:2])
        if det.get('note'): by+=' — '+det['note']
    else:
        by='**not reported**'+(' — '+m['miss_reason'] if m.get('miss_reason') else '')
    rows.append('| %s | %s | %s |'%(m['id'],what.replace('|','/'),by.replace('|','/')))
killed=sum(1 for r in rows if 'not reported' not in r)
t='<!-- seed-table-begin -->\n%d of %d seeded changes are reported by a registered check.\n\n| seed | change (needs to manifest) | reported by |\n|---|---|---|\n'%(killed,len(rows))+'\n'.join(rows)+'\n<!-- seed-table-end -->'
p='/verif/DESIGN.md'; s=open(p).read()
if 'SEED_TABLE' in s: s=s.replace('SEED_TABLE',t)
else: s=re.sub(r'<!-- seed-table-begin -->.*<!-- seed-table-end -->',lambda _:t,s,flags=re.S)
open(p,'w').write(s)
print(killed,len(rows))
