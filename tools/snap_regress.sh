#!/bin/bash
# usage: [TIER=thorough CBV_NO_SELFTEST=1] snap_regress.sh [-j N] [prop...] : run the quick checks against a snapshot copy of /repo's
# working tree (taken now), several at a time, evidence into scratch. For development only: the
# registered checks and the committed evidence always come from ./check against /repo itself.
J=3; [ "$1" = "-j" ] && { J=$2; shift 2; }
props="$@"; [ -z "$props" ] && props=$(python3 -c "import json;print(' '.join(sorted(json.load(open('/verif/spec/properties.map.json')).keys())))")
R=/tmp/snapr/$$; rm -rf $R; mkdir -p $R/repo
(cd /repo && git ls-files -z | xargs -0 cp --parents -t $R/repo)
run_one() { p=$1; V=$R/v_$p; mkdir -p $V/evidence; ln -s /verif/spec $V/spec; cp /verif/KNOWN_FINDINGS.txt $V/
  t0=$(date +%s); out=$(cd /verif && ./bin/cbv check -repo $R/repo -verif $V -prop $p -tier ${TIER:-quick} 2>&1); rc=$?
  echo "$p exit=$rc $(( $(date +%s)-t0 ))s $(echo "$out" | grep -c '^VIOLATION') violations $(echo "$out" | grep -c '^KNOWN-FINDING') known"
  echo "$out" | grep '^VIOLATION' | sed 's/.*obligation=/    /' | cut -c1-200 | head -8
  [ $rc -ge 2 ] && echo "$out" | tail -3
}
export -f run_one; export R
echo $props | tr ' ' '\n' | xargs -P $J -I{} bash -c 'run_one {}'
rm -rf $R
