#!/bin/bash
# usage: seed_run.sh <seed-id> <prop>... : apply a seeded change to /repo, run the quick checks, undo it
ID=$1; shift
cd /repo && git diff --quiet || { echo "/repo has uncommitted changes"; exit 2; }
git apply /verif/seeded/$ID/patch.diff || exit 2
for P in "$@"; do
  out=$(cd /verif && ./check $P quick 2>&1)
  n=$(echo "$out" | grep -c '^VIOLATION')
  echo "$ID $P violations=$n $(echo "$out" | tail -1 | sed 's/.*wall=/wall=/')"
  echo "$out" | grep '^VIOLATION' | sed 's/.*obligation=/    /' | cut -c1-160 | head -6
done
cd /repo && git apply -R /verif/seeded/$ID/patch.diff
git diff --quiet || echo "WARNING: /repo not clean after undo"
