#!/bin/bash
# runs every behaviour-preserving refactoring of selftest/must_pass against the checks listed for it
cd /verif
grep -v '^#' selftest/must_pass/index.txt | while read p props; do [ -n "$p" ] && tools/mustpass.sh /verif/selftest/must_pass/$p $props | grep -v '^ok'; done
